#![no_main]
// C19: first byte k = number of schedule steps, next k bytes = steps (0 -> Interrupted,
// b -> read of at most b%4+1 bytes), rest = frame bytes; reader decode must equal slice decode.
use libfuzzer_sys::fuzz_target;
use vcheck::readercheck::{eval_schedule, Step};

fuzz_target!(|data: &[u8]| {
    vcheck::framecheck::install_quiet_panic_hook_once();
    if data.is_empty() || data.len() > 100 {
        return;
    }
    let k = (data[0] as usize % 48).min(data.len() - 1);
    let steps: Vec<Step> = data[1..1 + k].iter().map(|b| if *b == 0 { Step::Interrupt } else { Step::Read((*b as usize % 4) + 1) }).collect();
    let frame = &data[1 + k..];
    if frame.len() > 32 {
        return;
    }
    if let Some((sig, msg)) = eval_schedule(frame, &steps, 64).first() {
        panic!("VERIF-FAIL {sig} :: {msg}");
    }
});
