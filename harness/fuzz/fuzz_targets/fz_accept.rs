#![no_main]
// C02: acceptance predicate, format variant, checksum window, tail independence.
use libfuzzer_sys::fuzz_target;

fuzz_target!(|data: &[u8]| {
    vcheck::framecheck::install_quiet_panic_hook_once();
    if data.len() > 40 {
        return;
    }
    if let Some((sig, msg)) = vcheck::accept::eval_c02(data).first() {
        panic!("VERIF-FAIL {sig} :: {msg}");
    }
});
