#![no_main]
// C01: up to three length-prefixed buffers are decoded, rendered, paired and fed to a fresh tracker;
// any panic inside the libraries is caught by the oracle and turned into a named failure.
use libfuzzer_sys::fuzz_target;
use vcheck::total::{exercise, TrackerCtx};

fuzz_target!(|data: &[u8]| {
    vcheck::framecheck::install_quiet_panic_hook_once();
    let mut t = TrackerCtx::new((52.0, 4.0), 500.0);
    let mut rest = data;
    for _ in 0..3 {
        if rest.is_empty() {
            break;
        }
        let n = (rest[0] as usize % 33).min(rest.len() - 1);
        let (frame, r) = rest[1..].split_at(n);
        rest = r;
        let (sigs, _) = exercise(frame, &mut t);
        if let Some((sig, msg)) = sigs.first() {
            panic!("VERIF-FAIL {sig} :: {msg}");
        }
    }
});
