#![no_main]
// C03/C04/C06-C11: differential against the reference decoder / renderer / bitwise CRC.
// VERIF_FUZZ_PID selects one property's oracle (default: all of them).
use libfuzzer_sys::fuzz_target;
use std::sync::OnceLock;

static PID: OnceLock<String> = OnceLock::new();

fuzz_target!(|data: &[u8]| {
    vcheck::framecheck::install_quiet_panic_hook_once();
    if data.len() > 40 {
        return;
    }
    let only = PID.get_or_init(|| std::env::var("VERIF_FUZZ_PID").unwrap_or_default());
    for pid in ["C04", "C06", "C07", "C08", "C09", "C10"] {
        if !only.is_empty() && only != pid {
            continue;
        }
        let eval = vcheck::decoder::eval_for(pid);
        if let Some((sig, msg)) = eval(data).first() {
            panic!("VERIF-FAIL {sig} :: {msg}");
        }
    }
    if only.is_empty() || only == "C11" {
        if let Some((sig, msg)) = vcheck::render::eval_c11(data).0.first() {
            panic!("VERIF-FAIL {sig} :: {msg}");
        }
    }
    if only.is_empty() || only == "C03" {
        if let Some((sig, msg)) = vcheck::accept::eval_crc_equiv(data).first() {
            panic!("VERIF-FAIL {sig} :: {msg}");
        }
    }
});
