//! C04, C06, C07, C08, C09, C10: field-level differential checks against `refdec`.
use crate::bits::{self, get, set};
use crate::core::*;
use crate::framecheck::*;
use crate::framegen::*;
use crate::refdec;
use adsb_deku::ICAO;
use proptest::test_runner::TestRng;
use serde_json::{json, Value};

fn want_c04(k: &str) -> bool {
    matches!(k, "ca" | "aa" | "trailer" | "cf" | "fs" | "dr" | "iis" | "ids" | "vs" | "cc" | "sl" | "ri" | "mv" | "af" | "dfcode")
}
fn want_c06(k: &str) -> bool {
    matches!(k, "alt13" | "me.alt")
}
fn want_c07(k: &str) -> bool {
    k.starts_with("me.")
}
fn want_c08(k: &str) -> bool {
    matches!(k, "me.cn" | "me.tc" | "me.ca" | "bds.cn" | "bds.kind" | "me.kind")
}
fn want_c09(k: &str) -> bool {
    matches!(k, "id13" | "me.squawk" | "me.st" | "me.emergency" | "me.kind")
}
fn want_c10(k: &str) -> bool {
    (k.starts_with("me.") && k != "me.alt" && k != "me.cn" && !k.starts_with("me.calc")) || k.starts_with("bds.") && k != "bds.cn"
}

pub fn want_for(pid: &str) -> fn(&str) -> bool {
    match pid {
        "C04" => want_c04,
        "C06" => want_c06,
        "C07" => want_c07,
        "C08" => want_c08,
        "C09" => want_c09,
        _ => want_c10,
    }
}

/// C07 and C09 (type 28) only look at their own ME type; C10 skips TC19/28/1-4 (owned by others)
pub fn eval_for(pid: &'static str) -> impl Fn(&[u8]) -> Sigs {
    let want = want_for(pid);
    move |buf: &[u8]| {
        if buf.len() >= 5 {
            let df = buf[0] >> 3;
            let tc = buf[4] >> 3;
            if df == 17 || df == 18 {
                match pid {
                    "C07" if tc != 19 => return vec![],
                    "C10" if matches!(tc, 19 | 28 | 1..=4) => return compare_fields(pid, buf, &|k| k == "me.kind").0,
                    "C08" if !(1..=4).contains(&tc) => return vec![],
                    "C09" if tc != 28 => return vec![],
                    _ => {}
                }
            } else if pid == "C07" {
                return vec![];
            }
        }
        let mut sigs = compare_fields(pid, buf, &want).0;
        if pid == "C08" && sigs.is_empty() {
            sigs.extend(ident_shown(buf));
        }
        if pid == "C09" && sigs.is_empty() {
            sigs.extend(squawk_shown(buf));
        }
        // one frame in 32 (by content): the decoded fields survive the crate's serde presentation,
        // and for velocity reports the text form is the one the reference renderer builds from
        // the decoded fields (the vertical rate of airspeed reports exists in the text only)
        if sigs.is_empty() && matches!(pid, "C07" | "C08" | "C10") && buf.iter().fold(0u32, |a, x| a.wrapping_mul(31).wrapping_add(*x as u32)) % 32 == 0 {
            if let Some(m) = crate::configs::serde_frame(buf) {
                sigs.push((format!("{pid}/serde/{}", refdec::class_of(buf)), m));
            }
            if pid == "C07" && sigs.is_empty() {
                for (sig, msg) in crate::render::eval_c11(buf).0 {
                    sigs.push((sig.replacen("C11/", "C07/shown/", 1), msg));
                }
            }
        }
        sigs
    }
}

/// C09, "presented as four hex-coded digits": the report of a frame that carries an identity code
/// has an `Identity:` / `Squawk:` line whose value reads as those four digits (leading zeros may
/// be dropped), in every carrier.
fn squawk_shown(buf: &[u8]) -> Sigs {
    if buf.len() < 7 {
        return vec![];
    }
    let df = buf[0] >> 3;
    let code = match df {
        5 | 21 => get(buf, 20, 13) as u32,
        17 | 18 if buf.len() >= 11 && buf[4] >> 3 == 28 => get(buf, 32 + 12, 13) as u32,
        _ => return vec![],
    };
    let Decoded::Ok(frame) = decode(buf) else { return vec![] };
    let Ok(text) = std::panic::catch_unwind(std::panic::AssertUnwindSafe(|| frame.to_string())) else { return vec![] };
    let want = refdec::squawk_of(code);
    let shown = text.lines().find_map(|l| {
        let l = l.trim_start();
        l.strip_prefix("Identity:").or_else(|| l.strip_prefix("Squawk:")).map(|v| v.trim().to_string())
    });
    match shown.as_deref().map(|v| u32::from_str_radix(v, 16)) {
        Some(Ok(v)) if v == want => vec![],
        _ => vec![(format!("C09/shown_squawk/{}", refdec::class_of(buf)), format!("identity code {want:04x}: the report shows {shown:?}"))],
    }
}

/// C08, the "shown" half: the report of a frame that carries an identification has an `Ident:`
/// line with the decoded call sign, and for type codes 1-4 a `Category:` line with the letter
/// D, C, B, A and the category number.
fn ident_shown(buf: &[u8]) -> Sigs {
    let Decoded::Ok(frame) = decode(buf) else { return vec![] };
    let act = refdec::actual(&frame);
    let cn = match (act.get("me.cn"), act.get("bds.cn")) {
        (Some(refdec::Val::S(c)), _) | (_, Some(refdec::Val::S(c))) => c.clone(),
        _ => return vec![],
    };
    let Ok(text) = std::panic::catch_unwind(std::panic::AssertUnwindSafe(|| frame.to_string())) else { return vec![] };
    let class = refdec::class_of(buf);
    let value = |key: &str| text.lines().find_map(|l| l.trim_start().strip_prefix(key).map(|v| v.trim().to_string()));
    let mut out = vec![];
    match value("Ident:") {
        Some(v) if v == cn.trim() => {}
        got => out.push((format!("C08/shown_ident/{class}"), format!("the frame decodes to the identification {cn:?} but its report shows {got:?}"))),
    }
    if let (Some(refdec::Val::U(ca)), true) = (act.get("me.ca"), act.contains_key("me.cn")) {
        let tc = buf[4] >> 3;
        let want = format!("{}{}", ["?", "D", "C", "B", "A"][(tc as usize).min(4)], ca);
        match value("Category:") {
            Some(v) if v == want => {}
            got => out.push((format!("C08/shown_category/{class}"), format!("type code {tc}, category {ca}: the report shows {got:?}, expected {want:?}"))),
        }
    }
    out
}

/// heading / ground speed / vertical rate of a record against the latest report that carried them
fn tracker_velocity_mismatch<H: Copy + Into<f64> + std::fmt::Debug, S: Copy + Into<f64> + std::fmt::Debug, V: Copy + Into<i64> + std::fmt::Debug>(want: Option<(f64, f64, i64)>, shown: (Option<H>, Option<S>, Option<V>)) -> Option<String> {
    match (want, shown) {
        (None, (None, None, None)) => None,
        (Some((h, sp, vr)), (Some(ah), Some(asp), Some(avr))) => {
            let (ah, asp, avr): (f64, f64, i64) = (ah.into(), asp.into(), avr.into());
            if (ah - h).abs() > 1e-3 || (asp - sp).abs() > 1e-3 * sp.max(1.0) || avr != vr {
                Some(format!("the tracker record shows heading {ah}, speed {asp}, vertical rate {avr}; the latest report with a derived velocity gives {h}, {sp}, {vr}"))
            } else {
                None
            }
        }
        (w, s) => Some(format!("the tracker record shows heading/speed/rate {s:?}; the latest report with a derived velocity gives {w:?}")),
    }
}

pub fn replay(pid: &'static str, v: &Value) -> Vec<Failure> {
    // (a saved case must not take the harness down: a panic while replaying it is the finding)
    match std::panic::catch_unwind(std::panic::AssertUnwindSafe(|| replay_inner(pid, v))) {
        Ok(r) => r,
        Err(_) => vec![Failure { sig: format!("{pid}/panic/replay"), msg: format!("replaying the saved case panicked at {}", last_panic()), replay: v.clone() }],
    }
}

fn replay_inner(pid: &'static str, v: &Value) -> Vec<Failure> {
    if v.get("kind").and_then(|k| k.as_str()) == Some("first_use") {
        return replay_first_use(pid, v);
    }
    if v.get("kind").and_then(|k| k.as_str()) == Some("serde_code") {
        let Some(b) = v.get("hex").and_then(|h| h.as_str()).and_then(bits::unhex) else { return vec![] };
        return match crate::configs::serde_frame(&b) {
            Some(m) => vec![Failure { sig: format!("C09/serde_code/{}", refdec::class_of(&b)), msg: m, replay: v.clone() }],
            None => vec![],
        };
    }
    if v.get("kind").and_then(|k| k.as_str()) == Some("tracker_velocity") {
        // the velocity reports of one aircraft in order, to a record that starts with the first
        let mut planes = rsadsb_common::Airplanes::new();
        let mut want = None;
        let mut out = vec![];
        for h in v["history"].as_array().cloned().unwrap_or_default() {
            let Some(b) = h.as_str().and_then(bits::unhex) else { continue };
            if let Decoded::Ok(f) = decode(&b) {
                if let Some(x) = refdec::velocity_calc(&b[4..11]) {
                    want = Some(x);
                }
                planes.action(f, (52.0, 4.0), 500.0);
                if let Some(shown) = planes.get(ICAO([0xab, 0xc0, 0x01])).map(|s| (s.heading, s.speed, s.vert_speed)) {
                    if let Some(m) = tracker_velocity_mismatch(want, shown) {
                        out.push(Failure { sig: "C07/tracker_velocity".into(), msg: m, replay: v.clone() });
                        break;
                    }
                }
            }
        }
        return out;
    }
    if v.get("kind").and_then(|k| k.as_str()) == Some("tracker_callsign") {
        // the identifications of one aircraft in order: the record shows the last one
        let mut planes = rsadsb_common::Airplanes::new();
        let mut want = None;
        for h in v["history"].as_array().cloned().unwrap_or_default() {
            let Some(b) = h.as_str().and_then(bits::unhex) else { continue };
            if let Decoded::Ok(f) = decode(&b) {
                if let Some(refdec::Val::S(cn)) = refdec::actual(&f).get("me.cn").cloned() {
                    want = Some(cn);
                }
                // as in the check: silent for 3 s, heard, expiry with a 2 s threshold
                planes.verif_backdate(ICAO([0xab, 0xc0, 0x01]), std::time::Duration::from_secs(3));
                planes.action(f, (52.0, 4.0), 500.0);
                planes.prune(2);
                if b[10] % 4 == 0 {
                    let rx = if b[9] % 2 == 0 { (52.0, 4.0) } else { (35.0, -80.0) };
                    for hx in ["8dabc00158c382d690c8ac2863a7", "8dabc00158c386435cc412692ad6"] {
                        if let Some(Decoded::Ok(p)) = bits::unhex(hx).map(|x| decode(&x)) {
                            planes.action(p, rx, 500.0);
                        }
                    }
                }
            }
        }
        let shown = planes.get(ICAO([0xab, 0xc0, 0x01])).and_then(|s| s.callsign.clone());
        return if shown != want { vec![Failure { sig: "C08/tracker_callsign".into(), msg: format!("the latest identification decodes to {want:?}, the tracker record shows {shown:?}"), replay: v.clone() }] } else { vec![] };
    }
    let mut out = vec![];
    if v.get("kind").and_then(|k| k.as_str()) == Some("icao") {
        let a = v.get("addr").and_then(|x| x.as_u64()).unwrap_or(0) as u32;
        if let Some(m) = icao_roundtrip(a) {
            out.push(Failure { sig: "C04/icao_text".into(), msg: m, replay: v.clone() });
        }
        return out;
    }
    let hex = v.get("hex").and_then(|h| h.as_str()).unwrap_or("");
    let Some(buf) = bits::unhex(hex) else { return out };
    if v.get("kind").and_then(|k| k.as_str()) == Some("frame_nostd") && buf.len() >= 11 {
        // derived velocity in the alloc-only build
        let mut w = crate::configs::Worker::spawn();
        let a = w.ask(&["R".into(), format!("F {}", bits::hex(&buf))]);
        let line = a[1].lines().find(|l| l.starts_with("CALC ")).unwrap_or("CALC <missing>").to_string();
        let want = refdec::velocity_calc(&buf[4..11]);
        let got_none = line == "CALC None";
        let ok = match want {
            None => got_none,
            Some((h, sp, vr)) => {
                let inner = line.trim_start_matches("CALC Some((").trim_end_matches("))");
                let p: Vec<&str> = inner.split(", ").collect();
                p.len() == 3 && p[0].parse::<f64>().map(|g| (g - h).abs() <= 1e-4 && (0.0..360.0).contains(&g)).unwrap_or(false) && p[1].parse::<f64>().map(|g| (g - sp).abs() <= 1e-9 * sp.max(1.0)).unwrap_or(false) && p[2].parse::<i64>().map(|g| g == vr).unwrap_or(false)
            }
        };
        if !ok {
            out.push(Failure { sig: format!("C07/no_std/me.calc/TC19.{}", buf[4] & 7), msg: format!("alloc-only build: calculate() gives `{line}`, the model gives {want:?}"), replay: v.clone() });
        }
        return out;
    }
    let eval = eval_for(pid);
    for (sig, msg) in eval(&buf) {
        out.push(Failure { sig, msg, replay: v.clone() });
    }
    out
}

fn sample_frame(st: &mut Stats, note: &str, buf: &[u8]) {
    if st.samples.len() < 8 {
        st.samples.push(json!({"frame": bits::hex(buf), "class": refdec::class_of(buf), "from": note}));
    }
}

// ---------------------------------------------------------------------------------------------
// C06
// ---------------------------------------------------------------------------------------------

fn alt_class(ft: Option<i64>, code: u32, is13: bool) -> &'static str {
    let m = is13 && code & 0x40 != 0;
    let q = if is13 { code & 0x10 != 0 } else { code & 0x10 != 0 };
    if code == 0 {
        "zero"
    } else if m {
        "metric"
    } else if q {
        match ft {
            Some(a) if a > 0 => "q25_positive",
            _ => "q25_nonpositive",
        }
    } else {
        match ft {
            None => "gillham_illegal",
            Some(a) if a > 65535 => "gillham_over_u16",
            Some(a) if a <= 0 => "gillham_nonpositive",
            _ => "gillham_legal",
        }
    }
}

pub fn run_c06(ctx: &Ctx) -> ! {
    let k = ctx.tier.pick(2usize, 24);
    let eval = eval_for("C06");
    // ---- first use under contention: the first altitude codes a fresh process decodes, eight
    // at once (Gillham and 25 ft codes in DF0 / DF4 / DF16 / DF20 and in position reports)
    let mut pre = Stats::default();
    {
        let mut rng = ctx.rng(606, 0);
        let rounds = ctx.tier.pick(240usize, 4000);
        let codes13 = [0x0980u64, 0x0182, 0x1028, 0x0a24, 0x0c62, 0x1580, 0x1e97, 0x0f3f];
        let jobs: Vec<Vec<Vec<u8>>> = (0..rounds)
            .map(|r| {
                (0..8)
                    .map(|t| {
                        let c13 = codes13[(r + t) % codes13.len()];
                        let df = [4u8, 0, 20, 16, 17, 17, 4, 17][if r % 3 == 0 { r / 3 % 8 } else { (r + t) % 8 }];
                        let mut b = gen_frame_df(&mut rng, df);
                        if df == 17 {
                            let me = gen_me(&mut rng, 11);
                            b[4..11].copy_from_slice(&me);
                            set(&mut b, 32 + 9, 12, ((c13 & 0x1f80) >> 1) | (c13 & 0x3f));
                        } else {
                            set(&mut b, 20, 13, c13);
                        }
                        b
                    })
                    .collect()
            })
            .collect();
        pre.evaluations += (rounds * 8) as u64;
        pre.class_n("first altitude codes of a fresh process under contention", (rounds * 8) as u64);
        if let Some((ji, kx, here, there)) = first_use_contention(&jobs) {
            pre.fail(Failure {
                sig: "C06/first_use_race".into(),
                msg: format!("eight threads of a fresh process decode their first frame at the same moment: frame {} comes out as `{}`, decoded here it is `{}`", bits::hex(&jobs[ji][kx]), there.chars().take(200).collect::<String>(), here.chars().take(200).collect::<String>()),
                replay: json!({"kind": "first_use", "frames": jobs[ji].iter().map(|b| bits::hex(b)).collect::<Vec<_>>()}),
            });
        }
    }
    // cells: (carrier index, code)
    let carriers13 = [0u8, 4, 16, 20];
    let tcs12: Vec<u8> = (9..=18).chain(20..=22).collect();
    let mut cells: Vec<(u8, u8, u32)> = vec![]; // (df, tc or 255, code)
    for df in carriers13 {
        for code in 0..8192u32 {
            cells.push((df, 255, code));
        }
    }
    for df in [17u8, 18] {
        for tc in &tcs12 {
            for code in 0..4096u32 {
                cells.push((df, *tc, code));
            }
        }
    }
    let cells = &cells;
    let mut st = parallel(|w, st| {
        let mut rng = ctx.rng(6, w as u64);
        for (i, (df, tc, code)) in cells.iter().enumerate() {
            if i % WORKERS != w {
                continue;
            }
            let is13 = *tc == 255;
            let ft = if is13 { refdec::ac13_ft(*code) } else { refdec::ac12_ft(*code) };
            st.class(&format!("{}:{}", if is13 { "AC13" } else { "AC12" }, alt_class(ft, *code, is13)));
            st.nontrivial_enum += 1;
            for j in 0..k {
                let mut b = gen_frame_df(&mut rng, *df);
                if is13 {
                    set(&mut b, 20, 13, *code as u64);
                } else {
                    // keep CA/CF arbitrary, force the type code, put the code in ME 9-20
                    let me = gen_me(&mut rng, *tc);
                    b[4..11].copy_from_slice(&me);
                    set(&mut b, 32 + 9, 12, *code as u64);
                }
                if j == 0 && i % 9973 == 0 {
                    sample_frame(st, "code x carrier cell", &b);
                }
                run_case(st, "fields", &b, &eval);
            }
        }
        // ---- every code right after each of its one-bit neighbours (and after a two-bit one),
        // in the same or the other field width: a decoder that remembers its last code must not
        // answer from memory
        let mk = |rng: &mut TestRng, wide: bool, c: u32, sel: u32| -> Vec<u8> {
            if wide {
                let mut b = gen_frame_df(rng, [0u8, 4, 16, 20][(sel % 4) as usize]);
                set(&mut b, 20, 13, c as u64);
                b
            } else {
                let mut b = gen_frame_df(rng, if sel % 2 == 0 { 17 } else { 18 });
                let me = gen_me(rng, [9u8, 11, 18, 20, 22][(sel % 5) as usize]);
                b[4..11].copy_from_slice(&me);
                set(&mut b, 32 + 9, 12, c as u64);
                b
            }
        };
        // the 12-bit field is the 13-bit one without its M bit (bit 6)
        let to12 = |c13: u32| ((c13 & 0x1f80) >> 1) | (c13 & 0x3f);
        for code in 0..8192u32 {
            if code as usize % WORKERS != w {
                continue;
            }
            for bit in 0..13u32 {
                let nb = code ^ (1 << bit) ^ if bit % 5 == 4 { 1 << ((bit + 6) % 13) } else { 0 };
                // neighbour in a 13-bit carrier (or, every third time, the 12-bit one), then the code
                let before = if (code + bit) % 3 == 0 && nb & 0x40 == 0 { mk(&mut rng, false, to12(nb), code + bit) } else { mk(&mut rng, true, nb, code + bit) };
                let _ = decode(&before);
                let b = if (code / 3 + bit) % 4 == 0 && code & 0x40 == 0 { mk(&mut rng, false, to12(code), code) } else { mk(&mut rng, true, code, code / 7) };
                st.nontrivial_enum += 1;
                run_case(st, "fields", &b, &eval);
            }
            st.class_n("code right after a neighbouring code", 13);
        }
    });
    st.merge(pre);
    st.exhaustive.push("all 8192 13-bit codes, each decoded right after each of its 13 one-bit neighbours (carriers and field widths cycled)".into());
    st.exhaustive.push("all 8192 AC13 codes x {DF0,DF4,DF16,DF20}".into());
    st.exhaustive.push("all 4096 AC12 codes x TC{9..18,20..22} x {DF17,DF18}".into());
    let mut vac = vec![];
    for df in ["AC13", "AC12"] {
        for c in ["zero", "q25_positive", "q25_nonpositive", "gillham_illegal", "gillham_over_u16", "gillham_nonpositive", "gillham_legal"] {
            if st.classes.get(&format!("{df}:{c}")).copied().unwrap_or(0) == 0 {
                vac.push(format!("class {df}:{c} empty"));
            }
        }
    }
    finish(
        ctx,
        st,
        "exhaustive enumeration of (carrier, altitude code) cells, each with K random surroundings (all other frame bits, CA/CF, parity); a cell is one distinct non-trivial case (distinct by construction: enumeration index); evaluations counts cells x K",
        &["reference: 25 ft formula and Gray-code (pyModeS-style) Gillham decoder written independently of mode_ac.rs", "an altitude of exactly 0 ft may be presented as 0/None or Some(0)"],
        vac,
    )
}

// ---------------------------------------------------------------------------------------------
// C09
// ---------------------------------------------------------------------------------------------

pub fn run_c09(ctx: &Ctx) -> ! {
    let k = ctx.tier.pick(3usize, 48);
    let eval = eval_for("C09");
    // ---- first use under contention: fresh processes whose first act is to decode eight
    // identity-carrying frames at once (anything built lazily at first use is built under
    // contention); the result must be what this process decodes
    let mut pre = Stats::default();
    {
        let mut rng = ctx.rng(909, 0);
        let rounds = ctx.tier.pick(240usize, 4000);
        let jobs: Vec<Vec<Vec<u8>>> = (0..rounds)
            .map(|r| {
                (0..8)
                    .map(|t| {
                        let code = [0x1fbfu64, 0x0aaa, 0x1555, 0x0001, 0x1000, 0x0fff][(r + t) % 6] ^ (rng.below(4) << 5);
                        match (r / 3 + t) % 3 {
                            0 => {
                                let mut b = gen_frame_df(&mut rng, 5);
                                set(&mut b, 20, 13, code);
                                b
                            }
                            1 => {
                                let mut b = gen_frame_df(&mut rng, 21);
                                set(&mut b, 20, 13, code);
                                b
                            }
                            _ => {
                                let mut b = gen_frame_df(&mut rng, 17);
                                let me = gen_me(&mut rng, 28);
                                b[4..11].copy_from_slice(&me);
                                set(&mut b, 32 + 12, 13, code);
                                b
                            }
                        }
                    })
                    .collect()
            })
            .collect();
        // (a job whose frames are all of one carrier every third round: r / 3 + t varies with t,
        // so make every third job uniform)
        let jobs: Vec<Vec<Vec<u8>>> = jobs.into_iter().enumerate().map(|(r, j)| if r % 3 == 0 { let df = j[0][0] >> 3; let first: Vec<Vec<u8>> = j.iter().filter(|b| b[0] >> 3 == df).cloned().collect(); (0..8).map(|t| first[t % first.len()].clone()).collect() } else { j }).collect();
        pre.evaluations += (rounds * 8) as u64;
        pre.class_n("first identity codes of a fresh process under contention", (rounds * 8) as u64);
        if let Some((ji, kx, here, there)) = first_use_contention(&jobs) {
            pre.fail(Failure {
                sig: "C09/first_use_race".into(),
                msg: format!("eight threads of a fresh process decode their first frame at the same moment: frame {} comes out as `{}`, decoded here it is `{}`", bits::hex(&jobs[ji][kx]), there.chars().take(200).collect::<String>(), here.chars().take(200).collect::<String>()),
                replay: json!({"kind": "first_use", "frames": jobs[ji].iter().map(|b| bits::hex(b)).collect::<Vec<_>>()}),
            });
        }
    }
    let mut st = parallel(|w, st| {
        let mut rng = ctx.rng(9, w as u64);
        // ---- every code right after each of its 13 one-bit neighbours, same and other carrier
        // (a decoder that remembers its last field must not answer from memory)
        for code in 0..8192u32 {
            if code as usize % WORKERS != w {
                continue;
            }
            for bit in 0..13u32 {
                let mk = |rng: &mut TestRng, carrier: u32, c: u32| -> Vec<u8> {
                    match carrier {
                        0 => {
                            let mut b = gen_frame_df(rng, 5);
                            set(&mut b, 20, 13, c as u64);
                            b
                        }
                        1 => {
                            let mut b = gen_frame_df(rng, 21);
                            set(&mut b, 20, 13, c as u64);
                            b
                        }
                        _ => {
                            let mut b = gen_frame_df(rng, if carrier == 2 { 17 } else { 18 });
                            let me = gen_me(rng, 28);
                            b[4..11].copy_from_slice(&me);
                            set(&mut b, 32 + 12, 13, c as u64);
                            b
                        }
                    }
                };
                let (c1, c2) = ((code + bit) % 4, (code / 4 + bit) % 4);
                let before = mk(&mut rng, c1, code ^ (1 << bit));
                let _ = decode(&before);
                let b = mk(&mut rng, c2, code);
                st.nontrivial_enum += 1;
                run_case(st, "fields", &b, &eval);
            }
            st.class_n("code right after a one-bit neighbour", 13);
        }
        // carriers: 0 = DF5, 1 = DF21, 2 = DF17 TC28, 3 = DF18 TC28
        for code in 0..8192u32 {
            if code as usize % WORKERS != w {
                continue;
            }
            for carrier in 0..4 {
                st.nontrivial_enum += 1;
                st.class(["DF5", "DF21", "DF17/TC28", "DF18/TC28"][carrier]);
                for j in 0..k {
                    let b = match carrier {
                        0 | 1 => {
                            let mut b = gen_frame_df(&mut rng, if carrier == 0 { 5 } else { 21 });
                            set(&mut b, 20, 13, code as u64);
                            b
                        }
                        _ => {
                            let mut b = gen_frame_df(&mut rng, if carrier == 2 { 17 } else { 18 });
                            let me = gen_me(&mut rng, 28);
                            b[4..11].copy_from_slice(&me);
                            set(&mut b, 32 + 12, 13, code as u64);
                            b
                        }
                    };
                    if j == 0 && code % 1531 == 0 {
                        sample_frame(st, "identity code x carrier", &b);
                    }
                    run_case(st, "fields", &b, &eval);
                    // the code survives the crate's serde presentation (JSON) unchanged
                    if j == 0 {
                        st.eval();
                        if let Some(m) = crate::configs::serde_frame(&b) {
                            let class = refdec::class_of(&b);
                            st.fail(Failure { sig: format!("C09/serde_code/{class}"), msg: format!("identity code {code:#06x}: {m} (frame {})", bits::hex(&b)), replay: json!({"kind": "serde_code", "hex": bits::hex(&b)}) });
                        }
                    }
                }
            }
        }
        // the complete product subtype x emergency x identity code for type 28 (2 x 64 x 8192 frames)
        for se in 0..64u64 {
            for code in 0..8192u32 {
                if (code as usize + se as usize) % WORKERS != w {
                    continue;
                }
                for df in [17u8, 18] {
                    let mut b = gen_frame_df(&mut rng, df);
                    let me = gen_me(&mut rng, 28);
                    b[4..11].copy_from_slice(&me);
                    set(&mut b, 32 + 6, 6, se);
                    set(&mut b, 32 + 12, 13, code as u64);
                    st.nontrivial_enum += 1;
                    run_case(st, "fields", &b, &eval);
                }
            }
            st.class("type 28 full product");
        }
        // all 64 subtype x emergency combinations
        for se in 0..64u64 {
            if se as usize % WORKERS != w {
                continue;
            }
            for df in [17u8, 18] {
                st.nontrivial_enum += 1;
                st.class("subtype x emergency");
                for _ in 0..k * 8 {
                    let mut b = gen_frame_df(&mut rng, df);
                    let me = gen_me(&mut rng, 28);
                    b[4..11].copy_from_slice(&me);
                    set(&mut b, 32 + 6, 6, se);
                    run_case(st, "fields", &b, &eval);
                }
            }
        }
    });
    st.merge(pre);
    st.exhaustive.push("all 8192 identity codes x {DF5, DF21, DF17/TC28, DF18/TC28}".into());
    st.exhaustive.push("all 8192 identity codes, each decoded right after each of its 13 one-bit neighbours (carrier pairs cycled)".into());
    st.exhaustive.push("all 64 subtype x emergency-state values x {DF17, DF18}".into());
    st.exhaustive.push("the complete product subtype x emergency x identity code (64 x 8192) for type 28 under DF17 and DF18".into());
    finish(
        ctx,
        st,
        "exhaustive enumeration of (carrier, 13-bit identity code) cells and (carrier, subtype, emergency) cells, each with K random surroundings; one cell = one distinct non-trivial case (distinct by construction)",
        &["reference de-interleaver written from the bit order C1 A1 C2 A2 C4 A4 X B1 D1 B2 D2 B4 D4"],
        vec![],
    )
}

// ---------------------------------------------------------------------------------------------
// C08
// ---------------------------------------------------------------------------------------------

fn ident_frame(rng: &mut TestRng, carrier: usize, chars: &[u8; 8]) -> Vec<u8> {
    // carriers: 0 DF17, 1 DF18, 2 DF20, 3 DF21
    let df = [17u8, 18, 20, 21][carrier];
    let mut b = gen_frame_df(rng, df);
    if carrier < 2 {
        let tc = 1 + rng.below(4) as u8;
        let me = gen_me(rng, tc);
        b[4..11].copy_from_slice(&me);
    } else {
        b[4] = 0x20;
    }
    for (i, c) in chars.iter().enumerate() {
        set(&mut b, 32 + 9 + 6 * i, 6, *c as u64);
    }
    b
}

pub fn run_c08(ctx: &Ctx) -> ! {
    let eval = eval_for("C08");
    let nrand = ctx.tier.pick(400_000u64, 60_000_000);
    let reps = ctx.tier.pick(2usize, 16);
    const REP16: [u8; 16] = [0, 1, 2, 26, 27, 31, 32, 33, 47, 48, 49, 57, 58, 59, 62, 63];
    let mut st = parallel(|w, st| {
        let mut rng = ctx.rng(8, w as u64);
        let mut planes = rsadsb_common::Airplanes::new();
        let mut last_fed: Option<Vec<u8>> = None;
        let mut case = |st: &mut Stats, rng: &mut TestRng, carrier: usize, chars: &[u8; 8], note: &str| {
            let b = ident_frame(rng, carrier, chars);
            let raw = refdec::callsign_raw(&b, 32 + 9);
            let last2 = chars[6] != 32 || chars[7] != 32;
            let unassigned = raw.contains('#');
            let digit = raw.chars().any(|c| c.is_ascii_digit());
            if last2 {
                st.class("char at position 7/8");
            }
            if unassigned {
                st.class("unassigned code");
            }
            if digit {
                st.class("digit");
            }
            if raw.starts_with(' ') || raw.trim_end().contains(' ') {
                st.class("leading/interior space");
            }
            if last2 || unassigned || digit {
                st.nontrivial(&(carrier, *chars));
            }
            if st.samples.len() < 8 && st.evaluations % 50_021 == 0 {
                st.samples.push(json!({"frame": bits::hex(&b), "chars": raw, "from": note}));
            }
            run_case(st, "fields", &b, &eval);
            // ... and it is what the tracker shows for that aircraft from then on: every
            // identification squitter goes to one long-lived record
            if carrier < 2 {
                if let Decoded::Ok(frame) = decode(&b) {
                    let mut c = b.clone();
                    set(&mut c, 9, 24, 0xabc001);
                    if let (Some(refdec::Val::S(cn)), Decoded::Ok(f2)) = (refdec::actual(&frame).get("me.cn").cloned(), decode(&c)) {
                        st.eval();
                        let r = std::panic::catch_unwind(std::panic::AssertUnwindSafe(|| {
                            // the aircraft has been silent for 3 s; the identification just received
                            // keeps it tracked through an expiry call with a 2 s threshold
                            let key = ICAO([0xab, 0xc0, 0x01]);
                            planes.verif_backdate(key, std::time::Duration::from_secs(3));
                            planes.action(f2, (52.0, 4.0), 500.0);
                            planes.prune(2);
                            // every fourth time a pair of position reports follows: accepted
                            // (near the receiver) or refused by the range check - neither
                            // carries an identification
                            if b[10] % 4 == 0 {
                                let rx = if b[9] % 2 == 0 { (52.0, 4.0) } else { (35.0, -80.0) };
                                for hx in ["8dabc00158c382d690c8ac2863a7", "8dabc00158c386435cc412692ad6"] {
                                    if let Some(Decoded::Ok(p)) = bits::unhex(hx).map(|x| decode(&x)) {
                                        planes.action(p, rx, 500.0);
                                    }
                                }
                            }
                            planes.get(key).and_then(|s| s.callsign.clone())
                        }));
                        if let Ok(shown) = r {
                            if shown.as_deref() != Some(cn.as_str()) && !st.failures.contains_key("C08/tracker_callsign") {
                                let hist: Vec<String> = last_fed.iter().map(|x| bits::hex(x)).chain(std::iter::once(bits::hex(&c))).collect();
                                st.fail(Failure { sig: "C08/tracker_callsign".into(), msg: format!("the latest identification of the aircraft decodes to {cn:?}, its tracker record shows {shown:?} (frames {hist:?})"), replay: json!({"kind": "tracker_callsign", "history": hist}) });
                            }
                        }
                        last_fed = Some(c);
                    }
                }
            }
        };
        let mut idx = 0usize;
        // every code at every position, others 'A'
        for carrier in 0..4 {
            for pos in 0..8 {
                for code in 0..64u8 {
                    idx += 1;
                    if idx % WORKERS != w {
                        continue;
                    }
                    for _ in 0..reps {
                        let mut c = [1u8; 8];
                        c[pos] = code;
                        case(st, &mut rng, carrier, &c, "code x position");
                    }
                }
            }
            // every ordered pair of positions x representative codes
            for p1 in 0..8 {
                for p2 in 0..8 {
                    if p1 == p2 {
                        continue;
                    }
                    for c1 in REP16 {
                        for c2 in REP16 {
                            idx += 1;
                            if idx % WORKERS != w {
                                continue;
                            }
                            let mut c = [32u8; 8];
                            c[p1] = c1;
                            c[p2] = c2;
                            case(st, &mut rng, carrier, &c, "pair of positions");
                        }
                    }
                }
            }
        }
        // every pair of codes at every two adjacent positions (a slip at a 6-bit boundary), and
        // every space / non-space pattern over the 8 positions with three kinds of filler
        for carrier in 0..4 {
            for pos in 0..7 {
                for joint in 0..4096u32 {
                    idx += 1;
                    if idx % WORKERS != w {
                        continue;
                    }
                    let mut c = [if joint & 1 == 0 { 32u8 } else { 1 + (joint % 26) as u8 }; 8];
                    c[pos] = (joint >> 6) as u8;
                    c[pos + 1] = (joint & 63) as u8;
                    case(st, &mut rng, carrier, &c, "adjacent pair");
                }
            }
            for mask in 0..256u32 {
                for filler in [1u8, 48, 0] {
                    idx += 1;
                    if idx % WORKERS != w {
                        continue;
                    }
                    let mut c = [32u8; 8];
                    for (i, x) in c.iter_mut().enumerate() {
                        if mask >> i & 1 == 1 {
                            *x = if filler == 1 { 1 + ((i as u32 * 7 + mask) % 26) as u8 } else if filler == 48 { 48 + ((i as u32 + mask) % 10) as u8 } else { filler };
                        }
                    }
                    case(st, &mut rng, carrier, &c, "space pattern");
                }
            }
        }
        // random strings (uniform codes) and realistic strings with spaces
        for i in 0..nrand / WORKERS as u64 {
            let carrier = rng.below(4) as usize;
            let mut c = [0u8; 8];
            if i % 2 == 0 {
                for x in c.iter_mut() {
                    *x = rng.below(64) as u8;
                }
            } else {
                // alphabet-biased with leading / interior / trailing spaces
                for x in c.iter_mut() {
                    *x = match rng.below(10) {
                        0..=4 => 1 + rng.below(26) as u8,
                        5..=6 => 48 + rng.below(10) as u8,
                        7..=8 => 32,
                        _ => rng.below(64) as u8,
                    };
                }
            }
            case(st, &mut rng, carrier, &c, "random string");
        }
    });
    st.exhaustive.push("every 6-bit code at every one of the 8 positions x 4 carriers".into());
    st.exhaustive.push("every ordered pair of positions x 16x16 representative codes x 4 carriers".into());
    st.exhaustive.push("every pair of codes at every two adjacent positions x 4 carriers".into());
    st.exhaustive.push("every space / non-space pattern over the 8 positions x {letters, digits, unassigned code 0} x 4 carriers".into());
    let mut vac = vec![];
    let total = st.evaluations.max(1);
    for c in ["char at position 7/8", "unassigned code", "digit"] {
        let n = st.classes.get(c).copied().unwrap_or(0);
        if n * 10 < total {
            vac.push(format!("class '{c}' below 10% ({n}/{total})"));
        }
    }
    finish(
        ctx,
        st,
        "DF17/DF18 TC1-4 and DF20/DF21 BDS2,0 frames carrying a chosen 8x6-bit string (every code at every position, all position pairs x 16 representative codes, uniform random and space-biased random strings), rest of the frame random; non-trivial = string with a non-space at position 7 or 8, an unassigned code, or a digit; distinct counted by hash of (carrier, codes)",
        &["callsigns are compared modulo spaces (interior spaces may be kept or dropped) and must have no leading/trailing space", "Annex 10 table: 1-26 A-Z, 32 space, 48-57 digits, everything else '#'"],
        vac,
    )
}

// ---------------------------------------------------------------------------------------------
// C07
// ---------------------------------------------------------------------------------------------

fn vel_frame(rng: &mut TestRng, df: u8, st_: u8) -> Vec<u8> {
    let mut b = gen_frame_df(rng, df);
    let mut me = gen_me(rng, 19);
    set(&mut me, 6, 3, st_ as u64);
    b[4..11].copy_from_slice(&me);
    b
}

pub fn run_c07(ctx: &Ctx) -> ! {
    let eval = eval_for("C07");
    let thorough = ctx.tier == Tier::Thorough;
    let mut st = parallel(|w, st| {
        let mut rng = ctx.rng(7, w as u64);
        // (a) all 2^22 direction/component words for the ground-speed subtypes
        for stype in [1u8, 2] {
            for word in 0..(1u64 << 22) {
                if word as usize % WORKERS != w {
                    continue;
                }
                let df = if word & 0x10 == 0 { 17 } else { 18 };
                let mut b = vel_frame(&mut rng, df, stype);
                set(&mut b, 32 + 14, 22, word);
                // vertical rate: mostly present so that calculate() is exercised
                if rng.chance(7, 8) {
                    let vr = 1 + rng.below(511);
                    set(&mut b, 32 + 38, 9, vr);
                }
                let ew = (word >> 11) & 0x3ff;
                let ns = word & 0x3ff;
                let calc = refdec::velocity_calc(&b[4..11]);
                if calc.is_some() {
                    st.nontrivial_enum += 1;
                    let (sx, sy) = ((word >> 21) & 1, (word >> 10) & 1);
                    let q = match (ew - 1, ns - 1) {
                        (0, 0) => "origin",
                        (0, _) => "axis_ns",
                        (_, 0) => "axis_ew",
                        _ => ["NE", "SE", "NW", "SW"][(sx * 2 + sy) as usize],
                    };
                    st.class(&format!("st{stype}:{q}"));
                } else {
                    st.class(&format!("st{stype}:no_information"));
                }
                if ew == 1023 || ns == 1023 {
                    st.class("component max");
                }
                if word % 700_001 == 0 {
                    sample_frame(st, "2^22 sweep", &b);
                }
                run_case(st, "fields", &b, &eval);
            }
        }
        // (b) all 2^11 vertical-rate codes x all 8 subtypes x both DFs
        for stype in 0..8u8 {
            for code in 0..(1u64 << 11) {
                if code as usize % WORKERS != w {
                    continue;
                }
                for df in [17u8, 18] {
                    let mut b = vel_frame(&mut rng, df, stype);
                    set(&mut b, 32 + 36, 11, code);
                    if matches!(stype, 1 | 2) && rng.chance(3, 4) {
                        let (e, n) = (1 + rng.below(1023), 1 + rng.below(1023));
                        set(&mut b, 32 + 15, 10, e);
                        set(&mut b, 32 + 26, 10, n);
                    }
                    st.nontrivial_enum += 1;
                    st.class("vrate sweep");
                    run_case(st, "fields", &b, &eval);
                }
            }
        }
        // (c) all 2^8 GNSS sign/difference codes, all subtypes
        for stype in 0..8u8 {
            for code in 0..256u64 {
                if code as usize % WORKERS != w {
                    continue;
                }
                let mut b = vel_frame(&mut rng, 17, stype);
                set(&mut b, 32 + 49, 8, code);
                st.nontrivial_enum += 1;
                st.class("gnss diff sweep");
                run_case(st, "fields", &b, &eval);
            }
        }
        // (d) airspeed subtypes: 2^22 words, 1:16 sample in quick
        for stype in [3u8, 4] {
            let step = if thorough { 1 } else { 16 };
            for word in (0..(1u64 << 22)).step_by(step) {
                if (word / step as u64) as usize % WORKERS != w {
                    continue;
                }
                let word = if thorough { word } else { word ^ rng.below(16) };
                let mut b = vel_frame(&mut rng, if word & 0x20 == 0 { 17 } else { 18 }, stype);
                set(&mut b, 32 + 14, 22, word);
                st.nontrivial_enum += 1;
                st.class(&format!("st{stype}:airspeed"));
                run_case(st, "fields", &b, &eval);
            }
        }
        // (e) all 8 subtypes x all 5-bit words at ME 9-13 (intent change, IFR, NACv)
        for stype in 0..8u8 {
            for word in 0..32u64 {
                if word as usize % WORKERS != w {
                    continue;
                }
                for _ in 0..8 {
                    let mut b = vel_frame(&mut rng, 17, stype);
                    set(&mut b, 32 + 9, 5, word);
                    st.nontrivial_enum += 1;
                    st.class("me9-13 sweep");
                    run_case(st, "fields", &b, &eval);
                }
            }
        }
    });
    // (f) the same derived velocity in the alloc-only (no_std) build of the decoder: a sample of
    // ground-speed reports is decoded by the worker process that links the library without std
    {
        use crate::configs::Worker;
        let mut rng = ctx.rng(77, 0);
        let mut worker = Worker::spawn();
        let n = ctx.tier.pick(24_000usize, 400_000);
        let mut frames: Vec<Vec<u8>> = Vec::with_capacity(n);
        for i in 0..n {
            let mut b = vel_frame(&mut rng, 17, if i % 2 == 0 { 1 } else { 2 });
            let ew = *rng.pick(&[0u64, 1, 2, 3, 100, 1022, 1023]);
            let ns = *rng.pick(&[0u64, 1, 2, 3, 100, 1022, 1023]);
            if i % 3 != 0 {
                set(&mut b, 32 + 15, 10, ew);
                set(&mut b, 32 + 26, 10, ns);
            }
            set(&mut b, 32 + 14, 1, (i as u64 >> 1) & 1);
            set(&mut b, 32 + 25, 1, (i as u64 >> 2) & 1);
            if i % 5 != 0 {
                let vr = 1 + rng.below(511);
                set(&mut b, 32 + 38, 9, vr);
            }
            bits::fix_parity(&mut b, 0);
            frames.push(b);
        }
        for chunk in frames.chunks(512) {
            let reqs: Vec<String> = chunk.iter().map(|b| format!("F {}", bits::hex(b))).collect();
            let answers = worker.ask(&reqs);
            for (b, a) in chunk.iter().zip(answers.iter()) {
                st.eval();
                st.nontrivial_enum += 1;
                let want = refdec::velocity_calc(&b[4..11]);
                let line = a.lines().find(|l| l.starts_with("CALC ")).unwrap_or("CALC <missing>");
                let got: Option<(f64, f64, i64)> = if line == "CALC None" {
                    None
                } else {
                    let inner = line.trim_start_matches("CALC Some((").trim_end_matches("))");
                    let p: Vec<&str> = inner.split(", ").collect();
                    if p.len() == 3 {
                        match (p[0].parse::<f64>(), p[1].parse::<f64>(), p[2].parse::<i64>()) {
                            (Ok(h), Ok(sp), Ok(v)) => Some((h, sp, v)),
                            _ => Some((f64::NAN, f64::NAN, i64::MIN)),
                        }
                    } else {
                        Some((f64::NAN, f64::NAN, i64::MIN))
                    }
                };
                let ok = match (want, got) {
                    (None, None) => true,
                    (Some((h, sp, v)), Some((gh, gs, gv))) => (h - gh).abs() <= 1e-4 && (sp - gs).abs() <= 1e-9 * sp.max(1.0) && v == gv && (0.0..360.0).contains(&gh),
                    _ => false,
                };
                if !ok {
                    st.fail(Failure {
                        sig: format!("C07/no_std/me.calc/TC19.{}", b[4] & 7),
                        msg: format!("alloc-only build: calculate() gives `{line}`, the model gives {want:?} (frame {})", bits::hex(b)),
                        replay: json!({"kind": "frame_nostd", "hex": bits::hex(b)}),
                    });
                }
            }
        }
        st.class_n("derived velocity in the alloc-only build", n as u64);
    }
    // (g) ... and it is what the tracker shows for that aircraft from then on: one long-lived
    // record receives a walk of velocity reports, each differing from its predecessor in one
    // group of fields only (rate, rate sign, components, direction, subtype, "no information")
    {
        let mut rng = ctx.rng(78, 0);
        let n = ctx.tier.pick(60_000usize, 1_500_000);
        let mut planes = rsadsb_common::Airplanes::new();
        let mut cur = vel_frame(&mut rng, 17, 1);
        let mut hist: std::collections::VecDeque<String> = Default::default();
        let mut want: Option<(f64, f64, i64)> = None;
        for _ in 0..n {
            match rng.below(8) {
                0 | 1 => {
                    let vr = 1 + rng.below(511);
                    set(&mut cur, 32 + 38, 9, vr);
                }
                2 => {
                    let sgn = get(&cur, 32 + 37, 1) ^ 1;
                    set(&mut cur, 32 + 37, 1, sgn);
                }
                3 => {
                    let (e, nn) = (1 + rng.below(1023), 1 + rng.below(1023));
                    set(&mut cur, 32 + 15, 10, e);
                    set(&mut cur, 32 + 26, 10, nn);
                }
                4 => {
                    let at = if rng.chance(1, 2) { 32 + 14 } else { 32 + 25 };
                    let d = get(&cur, at, 1) ^ 1;
                    set(&mut cur, at, 1, d);
                }
                5 => {
                    let stp = *rng.pick(&[1u64, 2, 1, 2, 3, 0]);
                    set(&mut cur, 32 + 6, 3, stp);
                }
                6 => {
                    let at = *rng.pick(&[32 + 38usize, 32 + 15, 32 + 26]);
                    let w = if at == 32 + 38 { 9 } else { 10 };
                    set(&mut cur, at, w, 0);
                }
                _ => {
                    let df = if rng.chance(1, 4) { 18 } else { 17 };
                    let fresh = vel_frame(&mut rng, df, 1);
                    // everything but the ground vector and the vertical rate changes
                    let keep: Vec<(usize, usize, u64)> = [(32 + 14, 22), (32 + 36, 11)].iter().map(|(a, w)| (*a, *w, get(&cur, *a, *w))).collect();
                    cur = fresh;
                    for (a, w, v) in keep {
                        set(&mut cur, a, w, v);
                    }
                }
            }
            set(&mut cur, 9, 24, 0xabc001);
            bits::fix_parity(&mut cur, 0);
            let Decoded::Ok(f) = decode(&cur) else { continue };
            st.eval();
            st.nontrivial_enum += 1;
            if let Some(v) = refdec::velocity_calc(&cur[4..11]) {
                want = Some(v);
            }
            hist.push_back(bits::hex(&cur));
            if hist.len() > 6 {
                hist.pop_front();
            }
            let r = std::panic::catch_unwind(std::panic::AssertUnwindSafe(|| {
                planes.action(f, (52.0, 4.0), 500.0);
                planes.get(ICAO([0xab, 0xc0, 0x01])).map(|s| (s.heading, s.speed, s.vert_speed))
            }));
            let Ok(Some(shown)) = r else { continue };
            if let Some(m) = tracker_velocity_mismatch(want, shown) {
                st.fail(Failure {
                    sig: "C07/tracker_velocity".into(),
                    msg: format!("{m} (the aircraft's last reports: {:?})", hist),
                    replay: json!({"kind": "tracker_velocity", "history": hist.iter().cloned().collect::<Vec<_>>()}),
                });
                break;
            }
        }
        st.class_n("velocity reports of one aircraft through the tracker", n as u64);
    }
    st.exhaustive.push("all 2^22 (E/W sign, E/W, N/S sign, N/S) words x subtypes {1,2}".into());
    st.exhaustive.push("all 2^11 (source, sign, rate) x 8 subtypes x {DF17,DF18}".into());
    st.exhaustive.push("all 2^8 GNSS sign/difference codes x 8 subtypes".into());
    st.exhaustive.push("all 5-bit words at ME 9-13 x 8 subtypes".into());
    if thorough {
        st.exhaustive.push("all 2^22 airspeed-subtype words x subtypes {3,4}".into());
    }
    let mut vac = vec![];
    for s in [1, 2] {
        for q in ["NE", "SE", "NW", "SW", "axis_ns", "axis_ew", "origin", "no_information"] {
            if st.classes.get(&format!("st{s}:{q}")).copied().unwrap_or(0) == 0 {
                vac.push(format!("class st{s}:{q} empty"));
            }
        }
    }
    finish(
        ctx,
        st,
        "type-19 frames under DF17/DF18: exhaustive sweeps of the velocity word, vertical-rate word, GNSS word and ME 9-13, all other bits random; non-trivial = enumeration cell (distinct by construction); for the 2^22 sweep only cells whose derived velocity must be Some are counted",
        &[
            "derived velocity model: (raw-1) kt, x4 for subtype 2, atan2(east,north) in [0,360) within 1e-4 deg (f32), hypot within 1e-9 relative, rate (raw-1)*64",
            "naming polarity of the vertical-rate source bit is not asserted (the suite pins bit=1 -> GNSS); only its value",
            "airspeed of the supersonic airspeed subtype 4 may be raw-1 or 4*(raw-1)",
        ],
        vac,
    )
}

// ---------------------------------------------------------------------------------------------
// C04
// ---------------------------------------------------------------------------------------------

fn icao_roundtrip(a: u32) -> Option<String> {
    let i = ICAO([(a >> 16) as u8, (a >> 8) as u8, a as u8]);
    let s = i.to_string();
    let exp = format!("{a:06x}");
    if s != exp {
        return Some(format!("address {a:#08x} renders as {s:?}, expected {exp:?}"));
    }
    match s.parse::<ICAO>() {
        Ok(j) if j == i => None,
        Ok(j) => Some(format!("address {a:#08x} renders as {s:?} which parses back to {:?}", j.0)),
        Err(e) => Some(format!("address {a:#08x} renders as {s:?} which does not parse: {e}")),
    }
}

pub fn run_c04(ctx: &Ctx) -> ! {
    let eval = eval_for("C04");
    let k = ctx.tier.pick(6usize, 200);
    let nrand = ctx.tier.pick(300_000u64, 60_000_000);
    let mut st = parallel(|w, st| {
        let mut rng = ctx.rng(4, w as u64);
        let mut idx = 0usize;
        // (a) CA/CF 0..7 x DF{11,17,18,24..31} x TC 0..31
        for df in [11u8, 17, 18, 24, 25, 26, 27, 28, 29, 30, 31] {
            for ca in 0..8u64 {
                for tc in 0..32u8 {
                    if df == 11 && tc > 0 {
                        continue;
                    }
                    idx += 1;
                    if idx % WORKERS != w {
                        continue;
                    }
                    st.nontrivial_enum += 1;
                    st.class(&format!("grid DF{df}"));
                    for j in 0..k {
                        let mut b = gen_frame_df(&mut rng, df);
                        set(&mut b, 6, 3, ca);
                        if df != 11 {
                            if df == 17 || df == 18 {
                                let me = gen_me(&mut rng, tc);
                                b[4..11].copy_from_slice(&me);
                            } else {
                                set(&mut b, 33, 5, tc as u64);
                            }
                        }
                        if j == 0 && idx % 401 == 0 {
                            sample_frame(st, "CA/CF x DF x TC grid", &b);
                        }
                        run_case(st, "fields", &b, &eval);
                    }
                }
            }
        }
        // (b) FS x DR x UM (2^14) for DF4/5/20/21
        for df in [4u8, 5, 20, 21] {
            for word in 0..(1u64 << 14) {
                idx += 1;
                if idx % WORKERS != w {
                    continue;
                }
                st.nontrivial_enum += 1;
                st.class(&format!("header DF{df}"));
                let mut b = gen_frame_df(&mut rng, df);
                set(&mut b, 6, 14, word);
                run_case(st, "fields", &b, &eval);
            }
        }
        // (c) DF0 / DF16: every value of bits 6-19
        for df in [0u8, 16] {
            for word in 0..(1u64 << 14) {
                idx += 1;
                if idx % WORKERS != w {
                    continue;
                }
                st.nontrivial_enum += 1;
                st.class(&format!("header DF{df}"));
                let mut b = gen_frame_df(&mut rng, df);
                set(&mut b, 6, 14, word);
                run_case(st, "fields", &b, &eval);
            }
        }
        // (d) DF19 AF
        for af in 0..8u64 {
            for _ in 0..k {
                let mut b = gen_frame_df(&mut rng, 19);
                set(&mut b, 6, 3, af);
                run_case(st, "fields", &b, &eval);
            }
        }
        // (e) structured random frames incl. over-long buffers
        for i in 0..nrand / WORKERS as u64 {
            let b = gen_frame(&mut rng);
            let (b, _) = if i % 4 == 0 { with_len_mode(&mut rng, b) } else { (b, LenMode::Exact) };
            if b.len() >= 7 && bits::df_supported(b[0] >> 3) && b.len() >= bits::required_len(b[0] >> 3) {
                st.nontrivial(&b);
                st.class("random structured");
            }
            run_case(st, "fields", &b, &eval);
        }
        // (f) all 2^24 addresses: text round trip
        let lo = (w as u32) << 20;
        for a in lo..lo + (1 << 20) {
            st.eval();
            if let Some(m) = icao_roundtrip(a) {
                st.fail(Failure { sig: "C04/icao_text".into(), msg: m, replay: json!({"kind": "icao", "addr": a}) });
            }
        }
        st.nontrivial_enum += 1 << 20;
    });
    st.samples.push(json!({"icao_text_roundtrip": ["000000", "00000a", "0a0b0c", "ffffff"]}));
    st.exhaustive.push("CA/CF 0..7 x DF{11,17,18,24..31} x TC 0..31 grid".into());
    st.exhaustive.push("all 2^14 values of frame bits 6-19 x DF{0,4,5,16,20,21}".into());
    st.exhaustive.push("all 2^24 addresses: Display / FromStr round trip".into());
    finish(
        ctx,
        st,
        "header-field grids (every CA/CF x DF x type code; every value of bits 6-19 of DF0/4/5/16/20/21) with K random fills each, structured random frames (1/4 with truncated / over-long buffers), and all 2^24 addresses through Display/FromStr; non-trivial = grid cell (distinct by construction) or accepted random frame (distinct by hash)",
        &["reference bit positions: Annex 10 vol IV 3.1.2; DF24-31 follow the crate's documented layout (CA 6-8, AA 9-32, last 24 bits parity)", "the library's DF20 variant has no trailing field, so none is compared there"],
        vec![],
    )
}

// ---------------------------------------------------------------------------------------------
// C10
// ---------------------------------------------------------------------------------------------

pub fn run_c10(ctx: &Ctx) -> ! {
    let eval = eval_for("C10");
    let k = ctx.tier.pick(2usize, 24);
    let nrand = ctx.tier.pick(400_000u64, 60_000_000);
    let thorough = ctx.tier == Tier::Thorough;
    let mut st = parallel(|w, st| {
        let mut rng = ctx.rng(10, w as u64);
        let mut idx = 0usize;
        // variants: (tc, subtype or 255)
        let mut variants: Vec<(u8, u8)> = vec![];
        for tc in 0..32u8 {
            if tc == 19 || tc == 31 {
                for s in 0..8 {
                    variants.push((tc, s));
                }
            } else {
                variants.push((tc, 255));
            }
        }
        // carriers: DF17, DF18 x CF0..7
        let carriers: Vec<(u8, u8)> = std::iter::once((17u8, 5u8)).chain((0..8).map(|c| (18u8, c))).collect();
        for (tc, sub) in &variants {
            let mut proto = gen_me(&mut rng, *tc);
            if *sub != 255 {
                set(&mut proto, 6, 3, *sub as u64);
            }
            let layout = me_layout(&proto);
            for (fname, start, len) in layout {
                if *fname == "st" || (*fname == "me.st" && *tc == 19) {
                    continue; // the subtype selects the layout; it is enumerated by `variants`
                }
                // 13..17-bit fields (the CPR words): every value under one type code per layout in
                // the quick tier, under every type code in the thorough tier
                let full_wide = *len <= 17 && (thorough || matches!(*tc, 5 | 9 | 20));
                let values: Vec<u64> = if *len <= 12 || full_wide {
                    (0..(1u64 << len)).collect()
                } else {
                    let max = (1u64 << len) - 1;
                    let mut v = vec![0, 1, 2, max, max - 1, 1 << (len - 1), (1 << (len - 1)) - 1, 0x155555 & max, 0xaaaaaa & max];
                    for _ in 0..64 {
                        v.push(rng.bits(*len as u32));
                    }
                    v
                };
                for val in values {
                    for (ci, (df, cf)) in carriers.iter().enumerate() {
                        if *len > 12 && ci > 1 && val > 2 {
                            continue; // wide sweeps: DF17 and DF18/CF0 only
                        }
                        idx += 1;
                        if idx % WORKERS != w {
                            continue;
                        }
                        st.nontrivial_enum += 1;
                        st.class(&format!("walk TC{tc:02}"));
                        for j in 0..k {
                            let mut b = gen_frame_df(&mut rng, *df);
                            if *df == 18 {
                                set(&mut b, 6, 3, *cf as u64);
                            }
                            let mut me = gen_me(&mut rng, *tc);
                            if *sub != 255 {
                                set(&mut me, 6, 3, *sub as u64);
                                if *tc == 31 && *sub <= 1 {
                                    make_ops_acceptable(&mut rng, &mut me);
                                }
                            }
                            set(&mut me, *start, *len, val);
                            b[4..11].copy_from_slice(&me);
                            if j == 0 && idx % 20011 == 0 {
                                st.samples.push(json!({"frame": bits::hex(&b), "walking_field": fname, "value": val, "class": refdec::class_of(&b)}));
                            }
                            run_case(st, "fields", &b, &eval);
                        }
                    }
                }
            }
            // pairs of fields: every joint value of every two fields of the layout whose combined
            // width is at most 10 bits (14 in the thorough tier), all other bits random
            let pair_bits = if thorough { 14 } else { 10 };
            for (i1, (f1, s1, l1)) in layout.iter().enumerate() {
                for (f2, s2, l2) in layout.iter().skip(i1 + 1) {
                    if l1 + l2 > pair_bits || *f1 == "st" || *f2 == "st" || (*tc == 19 && (*f1 == "me.st" || *f2 == "me.st")) {
                        continue;
                    }
                    for joint in 0..(1u64 << (l1 + l2)) {
                        idx += 1;
                        if idx % WORKERS != w {
                            continue;
                        }
                        let (v1, v2) = (joint >> l2, joint & ((1u64 << l2) - 1));
                        let df = if joint & 1 == 0 { 17 } else { 18 };
                        let mut b = gen_frame_df(&mut rng, df);
                        let mut me = gen_me(&mut rng, *tc);
                        if *sub != 255 {
                            set(&mut me, 6, 3, *sub as u64);
                            if *tc == 31 && *sub <= 1 {
                                make_ops_acceptable(&mut rng, &mut me);
                            }
                        }
                        set(&mut me, *s1, *l1, v1);
                        set(&mut me, *s2, *l2, v2);
                        b[4..11].copy_from_slice(&me);
                        st.nontrivial_enum += 1;
                        st.class("field pairs");
                        run_case(st, "fields", &b, &eval);
                    }
                }
            }
            // walking one: a single 1 bit at each ME position 6..56 over an all-zero payload
            for pos in 6..=56usize {
                for (df, cf) in &carriers {
                    idx += 1;
                    if idx % WORKERS != w {
                        continue;
                    }
                    let mut b = gen_frame_df(&mut rng, *df);
                    if *df == 18 {
                        set(&mut b, 6, 3, *cf as u64);
                    }
                    let mut me = [0u8; 7];
                    set(&mut me, 1, 5, *tc as u64);
                    if *sub != 255 {
                        set(&mut me, 6, 3, *sub as u64);
                    }
                    if !(*sub != 255 && (6..=8).contains(&pos)) {
                        set(&mut me, pos, 1, 1);
                    }
                    b[4..11].copy_from_slice(&me);
                    st.nontrivial_enum += 1;
                    st.class("walking one");
                    run_case(st, "fields", &b, &eval);
                }
            }
        }
        // BDS 1,0 under DF20 / DF21: walking fields + BDS dispatch on every first byte
        for df in [20u8, 21] {
            for (_, start, len) in L_BDS10 {
                for val in 0..(1u64 << (*len).min(12)) {
                    idx += 1;
                    if idx % WORKERS != w {
                        continue;
                    }
                    let val = if *len > 12 { rng.bits(*len as u32) } else { val };
                    st.nontrivial_enum += 1;
                    st.class("walk BDS10");
                    for _ in 0..k {
                        let mut b = gen_frame_df(&mut rng, df);
                        b[4] = 0x10;
                        set(&mut b, 32 + *start, *len, val);
                        run_case(st, "fields", &b, &eval);
                    }
                }
            }
            for pos in 9..=56usize {
                idx += 1;
                if idx % WORKERS != w {
                    continue;
                }
                let mut b = gen_frame_df(&mut rng, df);
                for x in b[4..11].iter_mut() {
                    *x = 0;
                }
                b[4] = 0x10;
                set(&mut b, 32 + pos, 1, 1);
                st.nontrivial_enum += 1;
                st.class("walking one BDS10");
                run_case(st, "fields", &b, &eval);
            }
            for code in 0..256u64 {
                idx += 1;
                if idx % WORKERS != w {
                    continue;
                }
                st.nontrivial_enum += 1;
                st.class("BDS dispatch");
                for _ in 0..k * 4 {
                    let mut b = gen_frame_df(&mut rng, df);
                    b[4] = code as u8;
                    run_case(st, "fields", &b, &eval);
                }
            }
        }
        // structured random
        for _ in 0..nrand / WORKERS as u64 {
            let df = *rng.pick(&[17u8, 17, 18, 18, 20, 21]);
            let b = gen_frame_df(&mut rng, df);
            st.nontrivial(&b);
            st.class("random structured");
            run_case(st, "fields", &b, &eval);
        }
    });
    st.exhaustive.push("every value of every field <= 12 bits of every ME layout x {DF17, DF18 x CF0..7}".into());
    st.exhaustive.push(if thorough { "every value of the 17-bit CPR fields under every position type code x {DF17, DF18/CF0}" } else { "every value of the 17-bit CPR fields under type codes 5, 9, 20 x {DF17, DF18/CF0}" }.into());
    st.exhaustive.push(format!("every joint value of every two fields of a layout with combined width <= {} bits", if thorough { 14 } else { 10 }));
    st.exhaustive.push("single-one payloads at every ME position x every type code/subtype x 9 carriers".into());
    st.exhaustive.push("every first MB byte (BDS dispatch) x {DF20, DF21}".into());
    finish(
        ctx,
        st,
        "walking-field enumeration (each field of each ME/MB layout takes every value, or edge + 64 random values when wider than 17 bits, all other bits random), field-pair enumeration, walking-one payloads, BDS dispatch sweep, and structured random frames; non-trivial = enumeration cell (distinct by construction) or random frame (distinct by hash)",
        &[
            "layouts from DO-260B 2.2.3.2 / ICAO 9871 table A-2-16, quoted as ME/MB bit ranges in refdec.rs",
            "type codes 1-4, 19 and 28 are owned by C08, C07 and C09: only variant dispatch is compared here; altitude codes are owned by C06",
            "TC31 subtype 0/1 frames that the version 0-2 layout rejects are not compared (C02 decides acceptance)",
        ],
        vec![],
    )
}
