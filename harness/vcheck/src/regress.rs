//! Replay tier: saved cases (witnesses of repaired defects and of seeded changes) are re-run
//! strictly at the start of every run, bypassing the generators.
use crate::core::*;
use serde_json::Value;
use std::sync::Mutex;

static PRE: Mutex<(Vec<Failure>, u64)> = Mutex::new((Vec::new(), 0));

/// replay one saved case; a panic while replaying it is a finding, not the end of the run
pub fn dispatch(pid: &str, v: &Value) -> Vec<Failure> {
    match std::panic::catch_unwind(std::panic::AssertUnwindSafe(|| dispatch_inner(pid, v))) {
        Ok(r) => r,
        Err(_) => vec![Failure { sig: format!("{pid}/panic/replay"), msg: format!("replaying the saved case panicked at {}", crate::framecheck::last_panic()), replay: v.clone() }],
    }
}

fn dispatch_inner(pid: &str, v: &Value) -> Vec<Failure> {
    match pid {
        "C01" => crate::total::replay_c01(v),
        "C02" => crate::accept::replay_c02(v),
        "C03" => crate::accept::replay_c03(v),
        "C05" => crate::cprcheck::replay_c05(v),
        "C04" | "C06" | "C07" | "C08" | "C09" | "C10" => {
            let p: &'static str = match pid {
                "C04" => "C04",
                "C06" => "C06",
                "C07" => "C07",
                "C08" => "C08",
                "C09" => "C09",
                _ => "C10",
            };
            crate::decoder::replay(p, v)
        }
        "C11" => crate::render::replay_c11(v),
        "C12" | "C13" | "C14" | "C15" => crate::tracker::replay(pid, v),
        "C19" => crate::readercheck::replay_c19(v),
        "C20" => crate::configs::replay_c20(v),
        _ => vec![],
    }
}

/// run all saved cases of `regress/<pid>.jsonl`; failures are merged into the run by `finish`
pub fn run(pid: &str) {
    let p = verif_dir().join("regress").join(format!("{pid}.jsonl"));
    let Ok(s) = std::fs::read_to_string(p) else { return };
    let mut pre = PRE.lock().unwrap();
    for l in s.lines() {
        let l = l.trim();
        if l.is_empty() || l.starts_with('#') {
            continue;
        }
        if let Ok(v) = serde_json::from_str::<Value>(l) {
            pre.1 += 1;
            if pid == "C01" {
                // heartbeat for the watchdog: a saved input may be one that does not terminate
                let b = v.get("hex").and_then(|h| h.as_str()).and_then(crate::bits::unhex).unwrap_or_default();
                crate::total::ctx_from_case(0, &v);
                crate::total::begin_case(0, &b);
            }
            for mut f in dispatch(pid, &v) {
                f.msg = format!("[saved regression case] {}", f.msg);
                pre.0.push(f);
            }
        }
    }
}

pub fn done(pid: &str) {
    if pid == "C01" {
        crate::total::end_worker(0);
    }
}

pub fn take() -> (Vec<Failure>, u64) {
    let mut pre = PRE.lock().unwrap();
    (std::mem::take(&mut pre.0), pre.1)
}
