//! C02 (format recognition / length discipline / acceptance set) and C03 (checksum).
use crate::bits::{self, set};
use crate::core::*;
use crate::framecheck::*;
use crate::framegen::*;
use crate::refdec::{self, Expect, Val};
use proptest::test_runner::TestRng;
use serde_json::{json, Value};

fn df_variant_name(f: &adsb_deku::Frame) -> &'static str {
    use adsb_deku::DF::*;
    match &f.df {
        ADSB(_) => "ADSB",
        AllCallReply { .. } => "AllCallReply",
        ShortAirAirSurveillance { .. } => "ShortAirAirSurveillance",
        SurveillanceAltitudeReply { .. } => "SurveillanceAltitudeReply",
        SurveillanceIdentityReply { .. } => "SurveillanceIdentityReply",
        LongAirAir { .. } => "LongAirAir",
        TisB { .. } => "TisB",
        ExtendedQuitterMilitaryApplication { .. } => "ExtendedQuitterMilitaryApplication",
        CommBAltitudeReply { .. } => "CommBAltitudeReply",
        CommBIdentityReply { .. } => "CommBIdentityReply",
        ModeSExtendedSquitter { .. } => "ModeSExtendedSquitter",
        #[allow(unreachable_patterns)]
        _ => "<new variant>",
    }
}

/// which reserved group of a TC31 subtype 0/1 report offends (for signatures)
fn ops_offence(buf: &[u8]) -> String {
    let me = &buf[4..11];
    let mut v = vec![];
    if bits::get(me, 9, 2) != 0 {
        v.push("r9-10");
    }
    if bits::get(me, 13, 2) != 0 {
        v.push("r13-14");
    }
    if bits::get(me, 25, 2) != 0 {
        v.push("r25-26");
    }
    if bits::get(me, 41, 3) > 2 {
        v.push("version");
    }
    v.join("+")
}

/// C02 oracle on one buffer
pub fn eval_c02(buf: &[u8]) -> Sigs {
    let mut out = vec![];
    let class = refdec::class_of(buf);
    let exp = refdec::expected(buf);
    let dec = decode(buf);
    match (&exp, &dec) {
        (_, Decoded::Panic(p)) => out.push((format!("C02/panic/{class}"), format!("decode panicked: {p}"))),
        (Expect::DontCare, _) => {}
        (Expect::Reject, Decoded::Ok(f)) => {
            let why = if class.contains("TC31") { format!("/{}", ops_offence(buf)) } else { String::new() };
            out.push((format!("C02/accepted_but_must_reject/{class}{why}"), format!("buffer of {} bytes must be rejected but decoded as {} (crc {:06x})", buf.len(), df_variant_name(f), f.crc)));
        }
        (Expect::Reject, Decoded::Err(_)) => {}
        (Expect::Accept(_), Decoded::Err(e)) => out.push((format!("C02/rejected_but_must_accept/{class}"), format!("buffer of {} bytes must be accepted but decode returned Err({e})", buf.len()))),
        (Expect::Accept(e), Decoded::Ok(f)) => {
            if let Some(Val::S(name)) = e.get("df") {
                if name != df_variant_name(f) {
                    out.push((format!("C02/df_variant/{class}"), format!("format variant: expected {name}, decoded {}", df_variant_name(f))));
                }
            }
            if let Some(Val::U(c)) = e.get("crc") {
                if *c != f.crc as u64 {
                    out.push((format!("C02/crc_window/{class}"), format!("checksum over the {}-byte frame: expected {c:06x}, decoded {:06x}", bits::required_len(buf[0] >> 3), f.crc)));
                }
            }
            if let adsb_deku::DF::ModeSExtendedSquitter { df, .. } = &f.df {
                if *df != buf[0] >> 3 {
                    out.push((format!("C02/df_code/{class}"), format!("format code: expected {}, decoded {df}", buf[0] >> 3)));
                }
            }
            // bytes after the frame never influence the result
            let req = bits::required_len(buf[0] >> 3);
            if buf.len() > req {
                match decode(&buf[..req]) {
                    Decoded::Ok(g) => {
                        if format!("{g:?}") != format!("{f:?}") || g.crc != f.crc {
                            out.push((format!("C02/tail_influence/{class}"), format!("decoding {} bytes differs from decoding the {req}-byte frame alone", buf.len())));
                        }
                    }
                    _ => out.push((format!("C02/tail_influence/{class}"), format!("the {req}-byte frame alone is rejected but accepted with a tail"))),
                }
            }
        }
    }
    // the by-reader twin of the entry point, handed a reader that stands inside a longer stream:
    // the same verdict, the same format variant and the same checksum
    if out.is_empty() && !matches!(exp, Expect::DontCare) && !buf.is_empty() {
        let off = 1 + buf[buf.len() - 1] as usize % 15;
        let mut stream = vec![0xa5u8; off];
        stream.extend_from_slice(buf);
        let twin = std::panic::catch_unwind(|| {
            let mut cur = std::io::Cursor::new(&stream[..]);
            cur.set_position(off as u64);
            adsb_deku::Frame::from_reader(&mut cur).ok().map(|f| (df_variant_name(&f).to_string(), f.crc))
        });
        let here = match &dec {
            Decoded::Ok(f) => Some((df_variant_name(f).to_string(), f.crc)),
            _ => None,
        };
        match twin {
            Err(_) => out.push((format!("C02/panic/{class}"), format!("from_reader (reader positioned {off} bytes into a stream) panicked: {}", last_panic()))),
            Ok(t) if t != here => out.push((format!("C02/reader_twin/{class}"), format!("from_bytes gives {here:?}, from_reader on a reader positioned {off} bytes into a stream gives {t:?} (variant, checksum)"))),
            _ => {}
        }
    }
    out
}

pub fn replay_c02(v: &Value) -> Vec<Failure> {
    let Some(buf) = bits::unhex(v.get("hex").and_then(|h| h.as_str()).unwrap_or("")) else { return vec![] };
    eval_c02(&buf).into_iter().map(|(sig, msg)| Failure { sig, msg, replay: v.clone() }).collect()
}

fn boundary(buf: &[u8]) -> bool {
    if buf.is_empty() {
        return true;
    }
    let df = buf[0] >> 3;
    let req = bits::required_len(df) as i64;
    let l = buf.len() as i64;
    (l - req).abs() <= 1 || [df.wrapping_sub(1), df + 1].iter().any(|d| *d < 32 && bits::df_supported(*d) != bits::df_supported(df))
}

pub fn run_c02(ctx: &Ctx) -> ! {
    let k = ctx.tier.pick(48usize, 1536);
    let nrand = ctx.tier.pick(400_000u64, 100_000_000);
    let kops = ctx.tier.pick(2usize, 64);
    let mut st = parallel(|w, st| {
        let mut rng = ctx.rng(2, w as u64);
        let mut idx = 0usize;
        // (a) all 32 DF codes x all lengths 0..=32
        for df in 0..32u8 {
            for len in 0..=32usize {
                idx += 1;
                if idx % WORKERS != w {
                    continue;
                }
                st.class(if bits::df_supported(df) { "grid supported DF" } else { "grid unsupported DF" });
                for j in 0..k {
                    // half random payload, half structured
                    let mut b = if j % 2 == 0 || !bits::df_supported(df) {
                        rng.bytes(32)
                    } else {
                        let mut f = gen_frame_df(&mut rng, df);
                        let t = rng.bytes(32 - f.len());
                        f.extend_from_slice(&t);
                        f
                    };
                    // (two buffers per cell are uniform: all bits clear / all bits set besides the format code)
                    if j == 2 || j == 3 {
                        b = vec![if j == 2 { 0x00 } else { 0xff }; 32];
                    }
                    set(&mut b, 1, 5, df as u64);
                    b.truncate(len);
                    if boundary(&b) {
                        st.nontrivial(&b);
                    }
                    if j == 0 && idx % 97 == 0 {
                        st.sample(json!({"buffer": bits::hex(&b), "df": df, "len": len}));
                    }
                    run_case(st, "c02", &b, &eval_c02);
                }
            }
        }
        // (b) type-31 subtype x version x reserved groups, exhaustive
        for stype in 0..8u64 {
            for ver in 0..8u64 {
                for groups in 0..64u64 {
                    idx += 1;
                    if idx % WORKERS != w {
                        continue;
                    }
                    st.nontrivial_enum += 1;
                    st.class("TC31 reserved/version grid");
                    for _ in 0..kops {
                        for df in [17u8, 18] {
                            let mut b = gen_frame_df(&mut rng, df);
                            let mut me = gen_me(&mut rng, 31);
                            set(&mut me, 6, 3, stype);
                            set(&mut me, 41, 3, ver);
                            set(&mut me, 9, 2, groups & 3);
                            set(&mut me, 13, 2, (groups >> 2) & 3);
                            set(&mut me, 25, 2, (groups >> 4) & 3);
                            b[4..11].copy_from_slice(&me);
                            run_case(st, "c02", &b, &eval_c02);
                        }
                    }
                }
            }
        }
        // (c) structured frames in all length modes
        for _ in 0..nrand / WORKERS as u64 {
            let f = gen_frame(&mut rng);
            let (b, mode) = with_len_mode(&mut rng, f);
            st.class(match mode {
                LenMode::Exact => "structured exact",
                LenMode::Truncated => "structured truncated",
                LenMode::OverLong => "structured over-long",
            });
            if boundary(&b) || mode == LenMode::OverLong {
                st.nontrivial(&b);
            }
            run_case(st, "c02", &b, &eval_c02);
        }
    });
    st.exhaustive.push("all 32 DF codes x all buffer lengths 0..=32 (K payloads each)".into());
    st.exhaustive.push("type 31: all subtype x version x reserved-group (ME 9-10, 13-14, 25-26) values x {DF17, DF18}".into());
    finish(
        ctx,
        st,
        "DF x length grid with random and structured payloads, the complete type-31 subtype/version/reserved-bit grid, and structured frames in exact / truncated / over-long mode; oracle: acceptance predicate of the statement, format variant, checksum window, and decode(frame ++ tail) == decode(frame); non-trivial = within one step of a length or DF boundary, a type-31 grid cell, or an over-long buffer; distinct by hash / enumeration index",
        &[
            "must-reject for type 31 subtype 0/1: version > 2, ME 9-10 != 0, ME 25-26 != 0, and ME 13-14 != 0 for subtype 0; ME 13-14 != 0 for subtype 1 is left open (DO-260B reserves them, the library ignores them)",
            "required length: 7 bytes for DF < 16, 14 bytes otherwise",
        ],
        vec![],
    )
}

// ---------------------------------------------------------------------------------------------
// C03
// ---------------------------------------------------------------------------------------------

pub fn eval_crc_equiv(buf: &[u8]) -> Sigs {
    let class = refdec::class_of(buf);
    match decode(buf) {
        Decoded::Ok(f) => {
            let req = bits::required_len(buf[0] >> 3);
            if buf.len() < req {
                // (also C02's violation.)  A checksum needs the frame's last 24 bits: whatever is
                // reported for a buffer that does not hold them is made up
                return vec![(format!("C03/checksum_without_frame/{class}"), format!("a buffer of {} bytes (the format needs {req}) is reported as a frame with checksum {:06x}", buf.len(), f.crc))];
            }
            let e = bits::refcrc(&buf[..req]);
            if e != f.crc {
                vec![(format!("C03/syndrome/{class}"), format!("checksum: bitwise division gives {e:06x}, library reports {:06x}", f.crc))]
            } else {
                vec![]
            }
        }
        Decoded::Panic(p) => vec![(format!("C03/panic/{class}"), format!("decode panicked: {p}"))],
        Decoded::Err(_) => vec![],
    }
}

/// the checksum is part of the frame: it survives the optional serialization unchanged (a frame
/// rebuilt from its serialized form no longer holds the bytes to recompute it)
pub fn eval_crc_serde(buf: &[u8]) -> Sigs {
    let Decoded::Ok(f) = decode(buf) else { return vec![] };
    let back = serde_json::to_string(&f).ok().and_then(|t| serde_json::from_str::<adsb_deku::Frame>(&t).ok());
    match back {
        Some(g) if g.crc != f.crc => vec![(format!("C03/checksum_lost_in_serialization/{}", refdec::class_of(buf).split('/').next().unwrap_or("")), format!("decoded checksum {:06x}, after a serialize / deserialize round trip {:06x}", f.crc, g.crc))],
        _ => vec![], // a frame that does not round-trip at all is C20's finding
    }
}

/// the same equivalence when the frame is decoded from a reader: one byte per read call, and
/// positioned `off` bytes into a longer stream
pub fn eval_crc_equiv_reader(buf: &[u8], off: usize) -> Sigs {
    use crate::readercheck::{Scripted, Step};
    if buf.is_empty() || buf.len() < bits::required_len(buf[0] >> 3) {
        return vec![];
    }
    let class = refdec::class_of(buf);
    let mut stream = vec![0x5au8; off];
    stream.extend_from_slice(buf);
    // without a fault, and with one transient `Interrupted` (which the I/O layer retries) before
    // read call k: every k for a quarter of the frames, one k for the others
    let ks: Vec<Option<usize>> = if buf.len() > 2 && buf[2] % 4 == 0 { std::iter::once(None).chain((0..18).map(Some)).collect() } else { vec![None, Some((buf[buf.len() - 1] as usize + off) % 18)] };
    let mut out = vec![];
    for k in ks {
        let script: Vec<Step> = match k {
            None => vec![],
            Some(k) => std::iter::repeat(Step::Read(1)).take(k).chain(std::iter::once(Step::Interrupt)).collect(),
        };
        let r = std::panic::catch_unwind(std::panic::AssertUnwindSafe(|| {
            let mut s = Scripted::at(&stream, off, &script, 1);
            adsb_deku::Frame::from_reader(&mut s).ok().map(|f| f.crc)
        }));
        match r {
            Ok(Some(crc)) => {
                let req = bits::required_len(buf[0] >> 3);
                let e = bits::refcrc(&buf[..req]);
                if e != crc {
                    let how = match k {
                        None => String::new(),
                        Some(k) => format!(", read call {k} interrupted once"),
                    };
                    out.push((format!("C03/syndrome_reader/{class}"), format!("checksum of a frame decoded from a reader (1 byte per read, {off} bytes into the stream{how}): bitwise division gives {e:06x}, library reports {crc:06x}")));
                    break;
                }
            }
            Ok(None) => {}
            Err(_) => {
                out.push((format!("C03/panic/{class}"), format!("from_reader panicked: {}", last_panic())));
                break;
            }
        }
    }
    out
}

/// constructed frames the library did not report at all, one example per class
static NOT_REPORTED: std::sync::Mutex<std::collections::BTreeMap<String, String>> = std::sync::Mutex::new(std::collections::BTreeMap::new());

/// a constructed frame that is rejected has no checksum to compare: counted per class, so that a
/// format which is never reported at all does not pass for lack of cases
fn note_not_reported(st: &mut Stats, class: &str, b: &[u8]) {
    if let Decoded::Err(_) = decode(b) {
        st.class(&format!("not reported: {class}"));
        if let Ok(mut m) = NOT_REPORTED.lock() {
            m.entry(class.to_string()).or_insert_with(|| bits::hex(b));
        }
    }
}

/// expected checksum `target` for a constructed frame
fn eval_crc_meaning(buf: &[u8], target: u32, what: &str) -> Sigs {
    let class = refdec::class_of(buf);
    match decode(buf) {
        Decoded::Ok(f) => {
            if f.crc != target {
                vec![(format!("C03/{what}/{class}"), format!("{what}: expected checksum {target:06x}, library reports {:06x}", f.crc))]
            } else if what == "address" {
                // the address/parity formats report the checksum as the sender's address in their
                // text form too: the hex number behind "ICAO Address:"
                let text = std::panic::catch_unwind(std::panic::AssertUnwindSafe(|| f.to_string())).unwrap_or_default();
                let shown = text.lines().find(|l| l.contains("ICAO Address:")).map(|l| l.split("ICAO Address:").nth(1).unwrap_or("").trim_start_matches(' ').chars().take_while(|c| !c.is_whitespace()).collect::<String>());
                match shown {
                    // (some formats print the number without leading zeros: the value counts)
                    Some(sx) if u32::from_str_radix(&sx, 16).ok() == Some(target) => vec![],
                    Some(_) => {
                        let line = text.lines().find(|l| l.contains("ICAO Address:")).unwrap_or("").to_string();
                        vec![(format!("C03/address_shown/{class}"), format!("the frame's checksum is the sender's address {target:06x}, its report says `{line}`"))]
                    }
                    None => vec![],
                }
            } else {
                vec![]
            }
        }
        Decoded::Panic(p) => vec![(format!("C03/panic/{class}"), format!("decode panicked: {p}"))],
        Decoded::Err(_) => vec![],
    }
}

/// corrupted valid squitter: accepted as a 112-bit format with checksum 0 is a violation
fn eval_corrupt(buf: &[u8]) -> (Sigs, bool) {
    match decode(buf) {
        Decoded::Ok(f) => {
            if buf[0] & 0x80 == 0 {
                return (vec![], false); // became a 56-bit format: other checksum window, excluded
            }
            if f.crc == 0 {
                (vec![(format!("C03/undetected_error/{}", refdec::class_of(buf)), "corrupted squitter reported with checksum 0".into())], true)
            } else {
                (vec![], true)
            }
        }
        Decoded::Panic(p) => (vec![(format!("C03/panic/{}", refdec::class_of(buf)), format!("decode panicked: {p}"))], true),
        Decoded::Err(_) => (vec![], false),
    }
}

pub fn replay_c03(v: &Value) -> Vec<Failure> {
    let Some(buf) = bits::unhex(v.get("hex").and_then(|h| h.as_str()).unwrap_or("")) else { return vec![] };
    let sigs = match v.get("check").and_then(|c| c.as_str()) {
        Some("reported") => match decode(&buf) {
            Decoded::Err(e) => vec![(format!("C03/never_reported/DF{:02}", buf.first().map(|b| b >> 3).unwrap_or(0)), format!("a constructed frame of an assigned format and full length is not reported: {e}"))],
            _ => vec![],
        },
        Some("corrupt") => {
            // base ^ pattern must not be reported with checksum 0
            eval_corrupt(&buf).0
        }
        Some("equiv_reader") => {
            let mut v2 = vec![];
            for off in [0usize, 7, 14, 3] {
                v2.extend(eval_crc_equiv_reader(&buf, off));
            }
            v2
        }
        Some("first_use") => {
            // a race: the eight frames are decoded concurrently as the first act of 400 fresh processes
            use std::io::Write;
            let frames: Vec<Vec<u8>> = v.get("frames").and_then(|x| x.as_array()).map(|a| a.iter().filter_map(|h| h.as_str().and_then(bits::unhex)).collect()).unwrap_or_default();
            let mut out = vec![];
            'rounds: for _ in 0..400 {
                let Ok(exe) = std::env::current_exe() else { break };
                let Ok(mut child) = std::process::Command::new(exe).arg("helper").stdin(std::process::Stdio::piped()).stdout(std::process::Stdio::piped()).stderr(std::process::Stdio::null()).spawn() else { break };
                let req = json!({"cmd": "firstcrc", "frames": frames.iter().map(|b| bits::hex(b)).collect::<Vec<_>>()});
                if let Some(mut si) = child.stdin.take() {
                    let _ = si.write_all(req.to_string().as_bytes());
                }
                let Ok(o) = child.wait_with_output() else { continue };
                let Ok(r) = serde_json::from_slice::<Value>(&o.stdout) else { continue };
                for (k, b) in frames.iter().enumerate() {
                    if let Some(got) = r["crcs"][k].as_u64() {
                        let want = bits::refcrc(&b[..bits::required_len(b[0] >> 3)]);
                        if got as u32 != want {
                            out.push(("C03/first_use_race".to_string(), format!("frame {} decoded concurrently with seven others as the first act of a process: checksum {got:06x}, bitwise division gives {want:06x}", bits::hex(b))));
                            break 'rounds;
                        }
                    }
                }
            }
            out
        }
        Some("serde_crc") => eval_crc_serde(&buf),
        Some("equiv_nostd") => {
            let mut worker = crate::configs::Worker::spawn();
            let a = worker.ask(&["R".to_string(), format!("F {}", bits::hex(&buf))]);
            let got = a.get(1).and_then(|x| x.strip_prefix("Ok crc=")).and_then(|r| u32::from_str_radix(r.lines().next().unwrap_or("").trim(), 16).ok());
            let req = bits::required_len(buf[0] >> 3);
            match got {
                Some(g) if buf.len() >= req && g != bits::refcrc(&buf[..req]) => vec![(format!("C03/no_std/syndrome/{}", refdec::class_of(&buf).split('/').next().unwrap_or("")), format!("alloc-only build: bitwise division gives {:06x}, the library reports {g:06x}", bits::refcrc(&buf[..req])))],
                _ => vec![],
            }
        }
        Some("meaning") => {
            let t = v.get("target").and_then(|t| t.as_u64()).unwrap_or(0) as u32;
            eval_crc_meaning(&buf, t, v.get("what").and_then(|t| t.as_str()).unwrap_or("meaning"))
        }
        _ => eval_crc_equiv(&buf),
    };
    sigs.into_iter().map(|(sig, msg)| Failure { sig, msg, replay: v.clone() }).collect()
}

fn base_frames(rng: &mut TestRng) -> Vec<Vec<u8>> {
    let mut v = vec![];
    // valid DF17 of several ME types, DF18, and a DF19 frame (parse reads one byte)
    for tc in [11u8, 4, 19, 29, 31, 0, 28, 7] {
        let mut b = gen_frame_df(rng, 17);
        let me = gen_me(rng, tc);
        b[4..11].copy_from_slice(&me);
        if tc == 31 {
            b[4] = 0xf8; // subtype 0
            let mut me2 = [0u8; 7];
            me2.copy_from_slice(&b[4..11]);
            make_ops_acceptable(rng, &mut me2);
            b[4..11].copy_from_slice(&me2);
        }
        bits::fix_parity(&mut b, 0);
        v.push(b);
    }
    let mut b = gen_frame_df(rng, 18);
    let me = gen_me(rng, 12);
    b[4..11].copy_from_slice(&me);
    bits::fix_parity(&mut b, 0);
    v.push(b);
    let mut b = gen_frame_df(rng, 19);
    bits::fix_parity(&mut b, 0);
    v.push(b);
    v
}

fn corrupt_case(st: &mut Stats, base: &[u8], flips: &[usize]) {
    let mut b = base.to_vec();
    for f in flips {
        bits::flip(&mut b, *f);
    }
    st.eval();
    let (sigs, counted) = eval_corrupt(&b);
    if counted {
        st.nontrivial_enum += 1;
    } else {
        st.excluded += 1;
    }
    for (sig, msg) in sigs {
        st.fail(Failure {
            sig,
            msg: format!("{msg}: base {} with bits {:?} flipped = {}", bits::hex(base), flips, bits::hex(&b)),
            replay: json!({"kind": "frame", "check": "corrupt", "hex": bits::hex(&b), "base": bits::hex(base), "flipped_bits": flips}),
        });
    }
}

/// all k-subsets of 1..=112, split over workers by first element
fn for_subsets(k: usize, w: usize, f: &mut dyn FnMut(&[usize])) {
    fn rec(k: usize, start: usize, cur: &mut Vec<usize>, f: &mut dyn FnMut(&[usize])) {
        if cur.len() == k {
            f(cur);
            return;
        }
        let need = k - cur.len();
        for i in start..=(112 - need + 1) {
            cur.push(i);
            rec(k, i + 1, cur, f);
            cur.pop();
        }
    }
    for first in 1..=112usize {
        if first % WORKERS != w {
            continue;
        }
        if k == 1 {
            f(&[first]);
        } else {
            let mut cur = vec![first];
            rec(k, first + 1, &mut cur, f);
        }
    }
}

pub fn run_c03(ctx: &Ctx) -> ! {
    let thorough = ctx.tier == Tier::Thorough;
    let nrand = ctx.tier.pick(1_000_000u64, 40_000_000);
    let mut brng = ctx.rng(300, 0);
    let bases = base_frames(&mut brng);
    let bases = &bases;
    // ---- the same checksum in the alloc-only (no_std) build: a sample decoded by the worker
    // process that links the library without std
    let mut pre = Stats::default();
    {
        use crate::configs::Worker;
        let mut rng = ctx.rng(303, 0);
        let mut worker = Worker::spawn();
        let n = ctx.tier.pick(20_000usize, 400_000);
        let frames: Vec<Vec<u8>> = (0..n).map(|i| { let mut b = gen_frame(&mut rng); if i % 3 == 0 && bits::df_supported(b[0] >> 3) { bits::fix_parity(&mut b, if i % 6 == 0 { 0 } else { rng.bits(24) as u32 }); } b }).collect();
        let mut reported = false;
        for chunk in frames.chunks(512) {
            let reqs: Vec<String> = chunk.iter().map(|b| format!("F {}", bits::hex(b))).collect();
            let answers = worker.ask(&reqs);
            for (b, a) in chunk.iter().zip(answers.iter()) {
                let Some(rest) = a.strip_prefix("Ok crc=") else { continue };
                let got = u32::from_str_radix(rest.lines().next().unwrap_or("").trim(), 16).unwrap_or(u32::MAX);
                let req = bits::required_len(b[0] >> 3);
                if b.len() < req {
                    continue;
                }
                pre.eval();
                let want = bits::refcrc(&b[..req]);
                if got != want && !reported {
                    reported = true;
                    pre.fail(Failure { sig: format!("C03/no_std/syndrome/{}", refdec::class_of(b).split('/').next().unwrap_or("")), msg: format!("alloc-only build: bitwise division gives {want:06x}, the library reports {got:06x} (frame {})", bits::hex(b)), replay: json!({"kind":"frame","check":"equiv_nostd","hex":bits::hex(b)}) });
                }
            }
        }
        pre.class_n("checksum in the alloc-only build", n as u64);
    }
    // ---- the first checksums of a process, computed by several threads at once (anything the
    // library sets up lazily at first use is set up under contention): fresh child processes
    {
        let mut rng = ctx.rng(304, 0);
        let rounds = ctx.tier.pick(320usize, 6000);
        let jobs: Vec<Vec<Vec<u8>>> = (0..rounds)
            .map(|_| {
                (0..8)
                    .map(|k| {
                        // frames of one kind (the same parsing time before the checksum is taken)
                        let mut b = gen_frame_df(&mut rng, 11);
                        if k % 2 == 0 {
                            bits::fix_parity(&mut b, 0);
                        }
                        b
                    })
                    .collect()
            })
            .collect();
        let results: Vec<Option<(usize, usize, u32, u32)>> = {
            let jobs = &jobs;
            let mut out = vec![];
            std::thread::scope(|sc| {
                let hs: Vec<_> = (0..WORKERS)
                    .map(|w| {
                        sc.spawn(move || {
                            use std::io::Write;
                            let mut bad = None;
                            for (ji, frames) in jobs.iter().enumerate() {
                                if ji % WORKERS != w || bad.is_some() {
                                    continue;
                                }
                                let Ok(exe) = std::env::current_exe() else { continue };
                                let Ok(mut child) = std::process::Command::new(exe).arg("helper").stdin(std::process::Stdio::piped()).stdout(std::process::Stdio::piped()).stderr(std::process::Stdio::null()).spawn() else { continue };
                                let req = json!({"cmd": "firstcrc", "frames": frames.iter().map(|b| bits::hex(b)).collect::<Vec<_>>()});
                                if let Some(mut si) = child.stdin.take() {
                                    let _ = si.write_all(req.to_string().as_bytes());
                                }
                                let Ok(o) = child.wait_with_output() else { continue };
                                let Ok(v) = serde_json::from_slice::<Value>(&o.stdout) else { continue };
                                for (k, b) in frames.iter().enumerate() {
                                    if let Some(got) = v["crcs"][k].as_u64() {
                                        let want = bits::refcrc(&b[..bits::required_len(b[0] >> 3)]);
                                        if got as u32 != want {
                                            bad = Some((ji, k, want, got as u32));
                                        }
                                    }
                                }
                            }
                            bad
                        })
                    })
                    .collect();
                for h in hs {
                    out.push(h.join().unwrap_or(None));
                }
            });
            out
        };
        pre.evaluations += (rounds * 8) as u64;
        pre.class_n("first checksums of a fresh process under contention", (rounds * 8) as u64);
        if let Some((ji, k, want, got)) = results.into_iter().flatten().next() {
            pre.fail(Failure { sig: "C03/first_use_race".into(), msg: format!("eight threads of a fresh process decode their first frame at the same moment: frame {} is reported with checksum {got:06x}, bitwise division gives {want:06x}", bits::hex(&jobs[ji][k])), replay: json!({"kind":"frame","check":"first_use","frames": jobs[ji].iter().map(|b| bits::hex(b)).collect::<Vec<_>>(), "hex": bits::hex(&jobs[ji][k])}) });
        }
    }
    let mut st = parallel(|w, st| {
        let mut rng = ctx.rng(3, w as u64);
        // ---- oracle 1: equivalence with bitwise division
        for _ in 0..nrand / WORKERS as u64 {
            let f = gen_frame(&mut rng);
            let (b, _) = with_len_mode(&mut rng, f);
            if run_case(st, "equiv", &b, &eval_crc_equiv) {
                continue;
            }
            if st.evaluations % 16 == 5 {
                run_case(st, "serde_crc", &b, &eval_crc_serde);
                st.class("serialized form keeps the checksum");
            }
            if st.evaluations % 8 == 0 {
                let off = [0usize, 7, 14, 3][(st.evaluations / 8 % 4) as usize];
                run_case(st, "equiv_reader", &b, &|x: &[u8]| eval_crc_equiv_reader(x, off));
                st.class("equiv via reader");
            }
            if b.len() >= 7 && bits::df_supported(b[0] >> 3) && b.len() >= bits::required_len(b[0] >> 3) {
                st.nontrivial(&b);
                st.class(&format!("equiv random DF{:02}", b[0] >> 3));
            }
        }
        // all frames with one non-zero byte besides the DF byte (indexes every table entry at every position)
        let mut idx = 0usize;
        for df in SUPPORTED_DF {
            let n = bits::required_len(df);
            for pos in 1..n {
                for val in 1..=255u8 {
                    idx += 1;
                    if idx % WORKERS != w {
                        continue;
                    }
                    let mut b = vec![0u8; n];
                    b[0] = df << 3;
                    b[pos] = val;
                    st.nontrivial_enum += 1;
                    st.class("equiv single byte");
                    run_case(st, "equiv", &b, &eval_crc_equiv);
                    // two non-zero bytes
                    let step = if thorough { 1 } else { 37 };
                    let mut p2 = pos + 1;
                    while p2 < n {
                        let mut v2 = 1u32 + (rng.below(step as u64) as u32);
                        while v2 <= 255 {
                            let mut c = b.clone();
                            c[p2] = v2 as u8;
                            st.nontrivial_enum += 1;
                            st.class("equiv two bytes");
                            run_case(st, "equiv", &c, &eval_crc_equiv);
                            v2 += step;
                        }
                        p2 += 1;
                    }
                }
            }
        }
        // ---- oracle 2: the three meanings
        let nmean = if thorough { 400_000 } else { 20_000 };
        for i in 0..nmean / WORKERS {
            // valid squitter -> 0
            let df = *rng.pick(&[17u8, 18]);
            let mut b = gen_frame_df(&mut rng, df);
            bits::fix_parity(&mut b, 0);
            st.eval();
            st.nontrivial(&b);
            st.class(&format!("meaning: valid squitter DF{df}"));
            note_not_reported(st, &format!("meaning: valid squitter DF{df}"), &b);
            for (sig, msg) in eval_crc_meaning(&b, 0, "valid_squitter") {
                st.fail(Failure { sig, msg: format!("{msg} (frame {})", bits::hex(&b)), replay: json!({"kind":"frame","check":"meaning","what":"valid_squitter","target":0,"hex":bits::hex(&b)}) });
            }
            // DF11 with PI = parity xor II  -> II (all 128 II/SI codes cycled)
            let ii = ((i + w * 8) % 128) as u32;
            let mut b = gen_frame_df(&mut rng, 11);
            bits::fix_parity(&mut b, ii);
            st.eval();
            st.nontrivial(&b);
            st.class("meaning: DF11 interrogator code");
            note_not_reported(st, "meaning: DF11 interrogator code", &b);
            for (sig, msg) in eval_crc_meaning(&b, ii, "interrogator_code") {
                st.fail(Failure { sig, msg: format!("{msg} (frame {})", bits::hex(&b)), replay: json!({"kind":"frame","check":"meaning","what":"interrogator_code","target":ii,"hex":bits::hex(&b)}) });
            }
            // AP formats with AP = parity xor AA -> AA
            let df = *rng.pick(&[0u8, 4, 5, 16, 20, 21]);
            let aa = match rng.below(6) {
                0 => 0,
                1 => 0xffffff,
                2 => 1,
                3 => 0x800000,
                _ => rng.bits(24) as u32,
            };
            let mut b = gen_frame_df(&mut rng, df);
            bits::fix_parity(&mut b, aa);
            st.eval();
            st.nontrivial(&b);
            st.class(&format!("meaning: address DF{df:02}"));
            note_not_reported(st, &format!("meaning: address DF{df:02}"), &b);
            if i == 0 {
                st.sample(json!({"address_parity_frame": bits::hex(&b), "address": format!("{aa:06x}")}));
            }
            for (sig, msg) in eval_crc_meaning(&b, aa, "address") {
                st.fail(Failure { sig, msg: format!("{msg} (frame {})", bits::hex(&b)), replay: json!({"kind":"frame","check":"meaning","what":"address","target":aa,"hex":bits::hex(&b)}) });
            }
        }
        // ---- oracle 3: error detection
        let maxw_exh = if thorough { 5 } else { 3 };
        for (bi, base) in bases.iter().enumerate() {
            // thorough: weight-5 exhaustive only on three bases (cost), weight <= 4 on all
            for k in 1..=maxw_exh {
                if k == 5 && !(bi == 0 || bi == 8 || bi == 9) {
                    continue;
                }
                if k == 4 && thorough && bi > 5 && bi < 8 {
                    continue;
                }
                for_subsets(k, w, &mut |s| corrupt_case(st, base, s));
                st.class_n(&format!("weight {k} exhaustive (per base)"), 1);
            }
            if !thorough {
                // sampled weight 4 / 5
                for _ in 0..(2_000_000 / WORKERS / bases.len()) {
                    let k = 4 + rng.below(2) as usize;
                    let mut s: Vec<usize> = vec![];
                    while s.len() < k {
                        let b = 1 + rng.below(112) as usize;
                        if !s.contains(&b) {
                            s.push(b);
                        }
                    }
                    s.sort();
                    corrupt_case(st, base, &s);
                }
            }
            // bursts: length L <= 24, first and last bit flipped, interior pattern of weight <= wi
            let wi = if thorough { 6 } else { 3 };
            for l in 2..=24usize {
                let interior = l - 2;
                // interior masks of weight <= wi
                let mut masks: Vec<u32> = vec![0];
                let mut frontier: Vec<(u32, usize)> = vec![(0, 0)];
                for _ in 0..wi {
                    let mut next = vec![];
                    for (m, from) in &frontier {
                        for b in *from..interior {
                            let m2 = m | (1 << b);
                            masks.push(m2);
                            next.push((m2, b + 1));
                        }
                    }
                    frontier = next;
                }
                for off in 1..=(112 - l + 1) {
                    if (off + l) % WORKERS != w {
                        continue;
                    }
                    for m in masks.iter().copied() {
                        let mut s = vec![off];
                        for b in 0..interior {
                            if m & (1 << b) != 0 {
                                s.push(off + 1 + b);
                            }
                        }
                        s.push(off + l - 1);
                        corrupt_case(st, base, &s);
                    }
                }
            }
            // all 2^22 interiors of 24-bit bursts at every offset: thorough, two bases
            if thorough && (bi == 0 || bi == 8) {
                for off in 1..=89usize {
                    if off % WORKERS != w {
                        continue;
                    }
                    for m in 0..(1u32 << 22) {
                        let mut b = base.clone();
                        bits::flip(&mut b, off);
                        bits::flip(&mut b, off + 23);
                        let cur = bits::get(&b, off + 1, 22);
                        set(&mut b, off + 1, 22, cur ^ m as u64);
                        st.eval();
                        let (sigs, counted) = eval_corrupt(&b);
                        if counted {
                            st.nontrivial_enum += 1;
                        } else {
                            st.excluded += 1;
                        }
                        for (sig, msg) in sigs {
                            st.fail(Failure { sig, msg: format!("{msg}: 24-bit burst at bit {off} of {} = {}", bits::hex(base), bits::hex(&b)), replay: json!({"kind":"frame","check":"corrupt","hex":bits::hex(&b),"base":bits::hex(base)}) });
                        }
                    }
                }
            }
        }
    });
    st.merge(pre);
    // a format of which every constructed frame was rejected has no reported checksum at all
    let meanings: Vec<(String, u64)> = st.classes.iter().filter(|(k, _)| k.starts_with("meaning: ")).map(|(k, v)| (k.clone(), *v)).collect();
    for (class, total) in meanings {
        let rej = st.classes.get(&format!("not reported: {class}")).copied().unwrap_or(0);
        if total >= 20 && rej == total {
            let hex = NOT_REPORTED.lock().ok().and_then(|m| m.get(&class).cloned()).unwrap_or_default();
            let df = class.rsplit("DF").next().unwrap_or("").trim().to_string();
            st.fail(Failure {
                sig: format!("C03/never_reported/DF{df}"),
                msg: format!("none of the {total} constructed frames of `{class}` was reported at all (e.g. {hex}): the format has no checksum"),
                replay: json!({"kind": "frame", "check": "reported", "hex": hex}),
            });
        }
    }
    st.samples.push(json!({"base_frames": bases.iter().map(|b| bits::hex(b)).collect::<Vec<_>>()}));
    st.samples.push(json!({"error_pattern_example": {"base": bits::hex(&bases[0]), "flipped_bits": [3, 40, 77]}}));
    st.exhaustive.push("all frames with one non-zero byte besides the DF byte, every accepted DF".into());
    st.exhaustive.push(format!("all error patterns of weight <= {} over 112 bits on each of {} base frames", if thorough { 4 } else { 3 }, bases.len()));
    st.exhaustive.push(format!("all bursts of length <= 24 at every offset with interior weight <= {}", if thorough { 6 } else { 3 }));
    if thorough {
        st.exhaustive.push("all weight-5 patterns on 3 base frames; all 2^22 interiors of 24-bit bursts at every offset on 2 base frames".into());
    }
    finish(
        ctx,
        st,
        "three oracles: (1) frame.crc == bitwise long division of the 56/112-bit window by 0x1FFF409 on structured random frames (all length modes), single- and double-non-zero-byte frames; (2) constructed frames: parity appended -> 0, PI = parity^II -> II for all 128 codes, AP = parity^AA -> AA; (3) valid base squitters XOR error pattern (weights and bursts enumerated) never decode as a 112-bit format with checksum 0. non-trivial = accepted frame (hash) or enumeration cell whose corrupted frame is still accepted as a long format; patterns that turn the frame into a rejected or 56-bit frame are 'excluded'",
        &["error detection is enumerated over patterns but over a fixed set of 10 generated base frames (linearity makes the base irrelevant for a correct table, which oracle 1 tests)", "a corrupted frame that decodes as a 56-bit format has a different checksum window and is excluded"],
        vec![],
    )
}
