//! C01: totality — no panic, no hang, bounded allocation, for decode and every frame operation.
use crate::bits::{self, set};
use crate::core::*;
use crate::framecheck::*;
use crate::framegen::*;
use crate::refdec;
use adsb_deku::adsb::ME;
use adsb_deku::{cpr, Altitude, Frame, DF};
use proptest::test_runner::TestRng;
use rsadsb_common::Airplanes;
use serde_json::{json, Value};
use std::alloc::{GlobalAlloc, Layout as ALayout, System};
use std::cell::Cell;
use std::panic::{catch_unwind, AssertUnwindSafe};
use std::sync::atomic::{AtomicU64, Ordering};
use std::sync::Mutex;

pub struct CountingAlloc;
thread_local! {
    static A_BYTES: Cell<u64> = const { Cell::new(0) };
    static A_COUNT: Cell<u64> = const { Cell::new(0) };
}
unsafe impl GlobalAlloc for CountingAlloc {
    unsafe fn alloc(&self, l: ALayout) -> *mut u8 {
        let _ = A_BYTES.try_with(|b| b.set(b.get() + l.size() as u64));
        let _ = A_COUNT.try_with(|b| b.set(b.get() + 1));
        System.alloc(l)
    }
    unsafe fn dealloc(&self, p: *mut u8, l: ALayout) {
        System.dealloc(p, l)
    }
    unsafe fn realloc(&self, p: *mut u8, l: ALayout, n: usize) -> *mut u8 {
        let _ = A_BYTES.try_with(|b| b.set(b.get() + n.saturating_sub(l.size()) as u64));
        let _ = A_COUNT.try_with(|b| b.set(b.get() + 1));
        System.realloc(p, l, n)
    }
}
pub fn alloc_snapshot() -> (u64, u64) {
    (A_BYTES.with(|b| b.get()), A_COUNT.with(|b| b.get()))
}

pub const ALLOC_BYTES_BOUND: u64 = 64 * 1024;
pub const ALLOC_COUNT_BOUND: u64 = 512;

// ---- watchdog ------------------------------------------------------------------------------
static HEARTBEAT: [AtomicU64; WORKERS] = [const { AtomicU64::new(0) }; WORKERS];
static CURRENT: Mutex<Vec<(usize, Vec<u8>)>> = Mutex::new(Vec::new());

fn now_ms() -> u64 {
    std::time::SystemTime::now().duration_since(std::time::UNIX_EPOCH).map(|d| d.as_millis() as u64).unwrap_or(0)
}

pub fn begin_case(w: usize, buf: &[u8]) {
    HEARTBEAT[w].store(now_ms(), Ordering::Relaxed);
    if let Ok(mut c) = CURRENT.try_lock() {
        if let Some(e) = c.iter_mut().find(|e| e.0 == w) {
            e.1.clear();
            e.1.extend_from_slice(buf);
        } else {
            c.push((w, buf.to_vec()));
        }
    }
}
/// what the tracker of worker `w` has been fed (the last 256 accepted frames) and where its
/// receiver is: a hang inside the tracker can only be reproduced with that context
static RING: [Mutex<(std::collections::VecDeque<Vec<u8>>, (f64, f64), f64)>; WORKERS] = [const { Mutex::new((std::collections::VecDeque::new(), (52.0, 4.0), 500.0)) }; WORKERS];

pub fn ctx_reset(w: usize, rx: (f64, f64), range: f64) {
    if let Ok(mut r) = RING[w].lock() {
        r.0.clear();
        r.1 = rx;
        r.2 = range;
    }
}
pub fn ctx_push(w: usize, buf: &[u8]) {
    if let Ok(mut r) = RING[w].lock() {
        if r.0.len() >= 256 {
            r.0.pop_front();
        }
        r.0.push_back(buf.to_vec());
    }
}

/// the context of a saved case (replay tier): should it not terminate, the watchdog saves it whole
pub fn ctx_from_case(w: usize, v: &Value) {
    let num = |k: &str, d: f64| v.get(k).and_then(|x| x.as_f64().or_else(|| x.as_str().and_then(|s| s.parse::<f64>().ok()))).unwrap_or(d);
    ctx_reset(w, (num("rx_lat", 52.0), num("rx_lon", 4.0)), num("range", 500.0));
    if let Some(h) = v.get("history").and_then(|h| h.as_array()) {
        for x in h {
            if let Some(b) = x.as_str().and_then(bits::unhex) {
                ctx_push(w, &b);
            }
        }
    }
}

/// The case a thread is working on, as the JSON that `--replay` takes (for checks other than
/// C01): if the thread makes no progress for the watchdog's limit, this is what gets saved.
static CURRENT_JSON: Mutex<Vec<(usize, Value)>> = Mutex::new(Vec::new());
static NEXT_SLOT: std::sync::atomic::AtomicUsize = std::sync::atomic::AtomicUsize::new(0);
thread_local! {
    static SLOT: Cell<usize> = const { Cell::new(usize::MAX) };
}

fn my_slot() -> usize {
    SLOT.with(|s| {
        if s.get() == usize::MAX {
            s.set(NEXT_SLOT.fetch_add(1, Ordering::Relaxed) % WORKERS);
        }
        s.get()
    })
}

/// mark the start of a case that could fail to terminate
pub fn guard_case(v: Value) {
    let w = my_slot();
    if let Ok(mut c) = CURRENT_JSON.try_lock() {
        if let Some(e) = c.iter_mut().find(|e| e.0 == w) {
            e.1 = v;
        } else {
            c.push((w, v));
        }
    }
    HEARTBEAT[w].store(now_ms(), Ordering::Relaxed);
}

/// the case is over (the thread may idle from here on)
pub fn guard_done() {
    HEARTBEAT[my_slot()].store(0, Ordering::Relaxed);
}

pub fn end_worker(w: usize) {
    HEARTBEAT[w].store(0, Ordering::Relaxed);
}

pub fn start_watchdog(limit_ms: u64) {
    std::thread::spawn(move || loop {
        std::thread::sleep(std::time::Duration::from_millis(500));
        let now = now_ms();
        for w in 0..WORKERS {
            let t = HEARTBEAT[w].load(Ordering::Relaxed);
            if t != 0 && now.saturating_sub(t) > limit_ms {
                let p = std::env::var("VERIF_WATCHDOG_FILE").map(std::path::PathBuf::from).unwrap_or_else(|_| verif_dir().join("replays").join("watchdog-input.json"));
                if let Some(v) = CURRENT_JSON.lock().ok().and_then(|c| c.iter().find(|e| e.0 == w).map(|e| e.1.clone())) {
                    let _ = std::fs::write(&p, v.to_string());
                    println!("WATCHDOG: a case ran longer than {limit_ms} ms (input saved to {})", p.display());
                    std::process::exit(3);
                }
                let cur = CURRENT.lock().ok().and_then(|c| c.iter().find(|e| e.0 == w).map(|e| bits::hex(&e.1))).unwrap_or_default();
                let dir = verif_dir().join("replays").join("C01");
                let _ = std::fs::create_dir_all(&dir);
                // the dispatcher names a file of its own (several checks may run side by side)
                let p = std::env::var("VERIF_WATCHDOG_FILE").map(std::path::PathBuf::from).unwrap_or_else(|_| dir.join("watchdog-input.json"));
                let f64j = |x: f64| if x.is_finite() { json!(x) } else { json!(format!("{x}")) };
                let (hist, rx, range) = RING[w].lock().map(|r| (r.0.iter().map(|b| bits::hex(b)).collect::<Vec<_>>(), r.1, r.2)).unwrap_or((vec![], (52.0, 4.0), 500.0));
                let _ = std::fs::write(&p, json!({"kind":"frame","check":"total","hex":cur,"history":hist,"rx_lat":f64j(rx.0),"rx_lon":f64j(rx.1),"range":f64j(range),"note":"worker made no progress; hang suspected"}).to_string());
                println!("WATCHDOG: a case ran longer than {limit_ms} ms (input saved to {})", p.display());
                // exit status 3: the dispatcher re-runs the saved input under a CPU-time limit to tell a
                // genuine non-terminating decode from a stalled machine
                std::process::exit(3);
            }
        }
    });
}

// ---- the operations ------------------------------------------------------------------------

pub struct TrackerCtx {
    pub planes: Airplanes,
    pub prev_pos: Option<Altitude>,
    pub fed: u64,
    pub rx: (f64, f64),
    pub range: f64,
}

impl TrackerCtx {
    pub fn new(rx: (f64, f64), range: f64) -> Self {
        Self { planes: Airplanes::new(), prev_pos: None, fed: 0, rx, range }
    }
}

fn position_of(f: &Frame) -> Option<Altitude> {
    let me = match &f.df {
        DF::ADSB(a) => &a.me,
        DF::TisB { cf, .. } => &cf.me,
        _ => return None,
    };
    match me {
        ME::AirbornePositionBaroAltitude(a) | ME::AirbornePositionGNSSAltitude(a) => Some(*a),
        _ => None,
    }
}

fn icao_of(f: &Frame) -> Option<adsb_deku::ICAO> {
    match &f.df {
        DF::ADSB(a) => Some(a.icao),
        DF::TisB { cf, .. } => Some(cf.aa),
        _ => None,
    }
}

/// decode + every operation; returns failures (sig, msg) and whether the frame was accepted
pub fn exercise(buf: &[u8], t: &mut TrackerCtx) -> (Sigs, bool) {
    let class = refdec::class_of(buf);
    let mut out = vec![];
    let (b0, c0) = alloc_snapshot();
    let frame = match catch_unwind(AssertUnwindSafe(|| Frame::from_bytes(buf))) {
        Ok(Ok(f)) => f,
        Ok(Err(_)) => {
            let (b1, c1) = alloc_snapshot();
            if b1 - b0 > ALLOC_BYTES_BOUND || c1 - c0 > ALLOC_COUNT_BOUND {
                out.push((format!("C01/alloc/{class}"), format!("rejecting decode allocated {} bytes in {} allocations", b1 - b0, c1 - c0)));
            }
            return (out, false);
        }
        Err(_) => {
            out.push((format!("C01/panic/decode/{class}"), format!("Frame::from_bytes panicked at {}", last_panic())));
            return (out, false);
        }
    };
    let mut op = |name: &str, f: &mut dyn FnMut()| {
        if catch_unwind(AssertUnwindSafe(|| f())).is_err() {
            out.push((format!("C01/panic/{name}/{class}"), format!("{name} panicked at {}", last_panic())));
        }
    };
    op("to_string", &mut || {
        let _ = frame.to_string();
    });
    op("debug", &mut || {
        let _ = format!("{frame:?}");
    });
    // the by-reader twin of the decoder, handed a reader that stands inside a longer stream
    // (the second frame of a capture), one frame in four
    if buf.len() > 2 && buf[buf.len() - 1] % 4 == 0 {
        let off = 2 + (buf[1] as usize % 13);
        let mut stream = vec![0x8du8; off];
        stream.extend_from_slice(buf);
        op("from_reader", &mut || {
            let mut cur = std::io::Cursor::new(&stream[..]);
            cur.set_position(off as u64);
            let _ = Frame::from_reader(&mut cur);
        });
    }
    let (b1, c1) = alloc_snapshot();
    op("calculate", &mut || {
        let me = match &frame.df {
            DF::ADSB(a) => Some(&a.me),
            DF::TisB { cf, .. } => Some(&cf.me),
            _ => None,
        };
        if let Some(ME::AirborneVelocity(v)) = me {
            let _ = v.calculate();
        }
    });
    if let Some(p) = position_of(&frame) {
        if let Some(q) = t.prev_pos {
            op("get_position", &mut || {
                let _ = cpr::get_position((&q, &p));
                let _ = cpr::get_position((&p, &q));
                let _ = cpr::get_position((&p, &p));
            });
        }
        t.prev_pos = Some(p);
    }
    let icao = icao_of(&frame);
    let copy = Frame { df: frame.df.clone(), crc: frame.crc };
    let (rx, range) = (t.rx, t.range);
    let planes = &mut t.planes;
    let mut copy = Some(copy);
    op("tracker", &mut || {
        if let Some(c) = copy.take() {
            let _ = planes.action(c, rx, range);
        }
        if let Some(i) = icao {
            let _ = planes.aircraft_details(i);
        }
        let _ = planes.all_position();
        let _ = planes.len();
    });
    t.fed += 1;
    if t.fed % 64 == 0 {
        op("tracker_to_string", &mut || {
            let _ = planes.to_string();
        });
    }
    if t.fed % 4096 == 0 {
        op("prune", &mut || {
            planes.prune(0);
        });
    }
    drop(op);
    if b1 - b0 > ALLOC_BYTES_BOUND || c1 - c0 > ALLOC_COUNT_BOUND {
        out.push((format!("C01/alloc/{class}"), format!("decode + render allocated {} bytes in {} allocations (bound {} / {})", b1 - b0, c1 - c0, ALLOC_BYTES_BOUND, ALLOC_COUNT_BOUND)));
    }
    MAX_ALLOC.fetch_max(b1 - b0, Ordering::Relaxed);
    MAX_ALLOCS.fetch_max(c1 - c0, Ordering::Relaxed);
    (out, true)
}

static MAX_ALLOC: AtomicU64 = AtomicU64::new(0);
static MAX_ALLOCS: AtomicU64 = AtomicU64::new(0);

pub fn replay_c01(v: &Value) -> Vec<Failure> {
    if v.get("kind").and_then(|k| k.as_str()) == Some("long_flight") {
        return crate::tracker::long_flight_check(v["n"].as_u64().unwrap_or(20_000) as usize).into_iter().filter(|f| f.0.starts_with("C01")).map(|(sig, msg)| Failure { sig, msg, replay: v.clone() }).collect();
    }
    if v.get("kind").and_then(|k| k.as_str()) == Some("long_lived") {
        let n = v["n"].as_u64().unwrap_or(150_000);
        let me = [0x20u8, 0x04, 0x10, 0x41, 0x04, 0x10, 0x41];
        let b = squitter(17, 5, 0x40621d, &me);
        let mut p = Airplanes::new();
        let r = catch_unwind(AssertUnwindSafe(|| {
            for _ in 0..n {
                if let Ok(f) = Frame::from_bytes(&b) {
                    let _ = p.action(f, (52.0, 4.0), 500.0);
                }
            }
        }));
        return if r.is_err() { vec![Failure { sig: "C01/panic/tracker/long_lived".into(), msg: format!("tracker panicked at {}", last_panic()), replay: v.clone() }] } else { vec![] };
    }
    let Some(buf) = bits::unhex(v.get("hex").and_then(|h| h.as_str()).unwrap_or("")) else { return vec![] };
    let mut out = vec![];
    // non-finite values are saved as strings ("NaN", "inf", "-inf")
    let num = |k: &str, d: f64| v.get(k).and_then(|x| x.as_f64().or_else(|| x.as_str().and_then(|s| s.parse::<f64>().ok()))).unwrap_or(d);
    let rx = (num("rx_lat", 52.0), num("rx_lon", 4.0));
    let range = num("range", 500.0);
    let mut t = TrackerCtx::new(rx, range);
    // optional history that must be fed first (tracker / pairing failures need it)
    if let Some(h) = v.get("history").and_then(|h| h.as_array()) {
        for x in h {
            if let Some(b) = x.as_str().and_then(bits::unhex) {
                for (sig, msg) in exercise(&b, &mut t).0 {
                    out.push(Failure { sig, msg, replay: v.clone() });
                }
            }
        }
    }
    for (sig, msg) in exercise(&buf, &mut t).0 {
        out.push(Failure { sig, msg, replay: v.clone() });
    }
    out
}

const RX_SPECIALS: [f64; 14] = [0.0, 90.0, -90.0, 180.0, -180.0, 1e-300, 1e300, f64::INFINITY, f64::NEG_INFINITY, f64::NAN, 52.0, -33.9, 89.999, 179.999];
const RANGE_SPECIALS: [f64; 9] = [0.0, -1.0, 1e-9, 50.0, 500.0, 20000.0, 1e300, f64::INFINITY, f64::NAN];

fn gen_rx(rng: &mut TestRng) -> ((f64, f64), f64) {
    let mut c = |rng: &mut TestRng, lim: f64| if rng.chance(1, 2) { *rng.pick(&RX_SPECIALS) } else { rng.range_f64(-lim, lim) };
    let lat = c(rng, 90.0);
    let lon = c(rng, 180.0);
    let range = if rng.chance(1, 2) { *rng.pick(&RANGE_SPECIALS) } else { rng.range_f64(0.0, 1000.0) };
    ((lat, lon), range)
}

/// record a failing case: shrink the frame on a fresh tracker if it still fails there,
/// otherwise keep the recent history
fn record(st: &mut Stats, sigs: Sigs, buf: &[u8], t: &TrackerCtx, recent: &[Vec<u8>]) {
    for (sig, msg) in sigs {
        if st.failures.contains_key(&sig) {
            st.failures.get_mut(&sig).unwrap().1 += 1;
            continue;
        }
        let fresh = |b: &[u8]| -> Sigs {
            let mut t2 = TrackerCtx::new(t.rx, t.range);
            exercise(b, &mut t2).0
        };
        let alone = fresh(buf).iter().any(|(s, _)| *s == sig);
        let (small, hist): (Vec<u8>, Vec<String>) = if alone { (shrink_frame(buf, &sig, &fresh), vec![]) } else { (buf.to_vec(), recent.iter().map(|b| bits::hex(b)).collect()) };
        let f64j = |x: f64| if x.is_finite() { json!(x) } else { json!(format!("{x}")) };
        st.fail(Failure {
            sig,
            msg: format!("{msg} (frame {}, receiver {:?}, range {})", bits::hex(&small), t.rx, t.range),
            replay: json!({"kind":"frame","check":"total","hex":bits::hex(&small),"history":hist,"rx_lat":f64j(t.rx.0),"rx_lon":f64j(t.rx.1),"range":f64j(t.range)}),
        });
    }
}

pub fn run_c01(ctx: &Ctx) -> ! {
    // the watchdog is started by main() before the replay tier
    let nrandom = ctx.tier.pick(2_000_000u64, 150_000_000);
    let nstruct = ctx.tier.pick(1_500_000u64, 150_000_000);
    let npool = ctx.tier.pick(220usize, 900);
    let mut st = parallel(|w, st| {
        let mut rng = ctx.rng(1, w as u64);
        let (rx, range) = gen_rx(&mut rng);
        let mut t = TrackerCtx::new(rx, range);
        let mut recent: Vec<Vec<u8>> = vec![];
        let mut case = |st: &mut Stats, t: &mut TrackerCtx, b: Vec<u8>, note: &str| {
            begin_case(w, &b);
            st.eval();
            let (sigs, accepted) = exercise(&b, t);
            if accepted {
                st.nontrivial(&b);
                st.class(&format!("accepted:{}", refdec::class_of(&b).split('/').next().unwrap_or("")));
            } else {
                st.class(note);
            }
            if !sigs.is_empty() {
                record(st, sigs, &b, t, &recent);
            }
            if accepted {
                ctx_push(w, &b);
                if recent.len() >= 6 {
                    recent.remove(0);
                }
                recent.push(b);
            }
        };
        ctx_reset(w, rx, range);
        // (a) uniform random byte strings of length 0..=32
        for i in 0..nrandom / WORKERS as u64 {
            let len = (i % 33) as usize;
            let b = rng.bytes(len);
            case(st, &mut t, b, "rejected random bytes");
            if i % 50_000 == 0 {
                let (rx, range) = gen_rx(&mut rng);
                t = TrackerCtx::new(rx, range);
                ctx_reset(w, rx, range);
            }
        }
        // (b) structured frames, all length modes, addresses from a small pool half the time
        for i in 0..nstruct / WORKERS as u64 {
            let mut f = gen_frame(&mut rng);
            if f.len() == 14 && rng.chance(1, 2) {
                let a = 0xabc000 + rng.below(6);
                set(&mut f, 9, 24, a);
            }
            let (b, mode) = with_len_mode(&mut rng, f);
            if st.samples.len() < 6 && i % 40_000 == 7 {
                st.samples.push(json!({"buffer": bits::hex(&b), "mode": format!("{mode:?}"), "receiver": format!("{:?}", t.rx), "range": format!("{}", t.range)}));
            }
            case(st, &mut t, b, "rejected structured");
            if i % 20_000 == 0 {
                let (rx, range) = gen_rx(&mut rng);
                t = TrackerCtx::new(rx, range);
                ctx_reset(w, rx, range);
            }
        }
        // (c) field-value sweeps: every value of every field <= 10 bits, edges of wider ones
        let mut idx = 0usize;
        for df in [17u8, 18] {
            for tc in 0..32u8 {
                for sub in 0..8u64 {
                    if !(tc == 19 || tc == 31 || tc == 28) && sub > 0 {
                        continue;
                    }
                    let mut proto = [0u8; 7];
                    set(&mut proto, 1, 5, tc as u64);
                    set(&mut proto, 6, 3, sub);
                    for (_, start, len) in me_layout(&proto) {
                        let vals: Vec<u64> = if *len <= 10 { (0..(1u64 << len)).collect() } else { let m = if *len >= 64 { u64::MAX } else { (1u64 << len) - 1 }; vec![0, 1, 2, m, m - 1, m / 2, m / 2 + 1] };
                        for v in vals {
                            idx += 1;
                            if idx % WORKERS != w {
                                continue;
                            }
                            let mut b = gen_frame_df(&mut rng, df);
                            let mut me = gen_me(&mut rng, tc);
                            if tc == 19 || tc == 31 || tc == 28 {
                                set(&mut me, 6, 3, sub);
                            }
                            set(&mut me, *start, *len, v);
                            b[4..11].copy_from_slice(&me);
                            case(st, &mut t, b, "rejected sweep");
                        }
                    }
                }
            }
        }
        // every 13-bit code in DF0/4/5/16/20/21
        for df in [0u8, 4, 5, 16, 20, 21] {
            for code in 0..8192u64 {
                idx += 1;
                if idx % WORKERS != w {
                    continue;
                }
                let mut b = gen_frame_df(&mut rng, df);
                set(&mut b, 20, 13, code);
                case(st, &mut t, b, "rejected sweep");
            }
        }
        // (c2) one long-lived aircraft: far more frames than any 16-bit counter holds, never pruned
        if w == 0 {
            let n_long = 150_000u32;
            let mut lt = TrackerCtx::new((52.0, 4.0), 500.0);
            let mut frames: Vec<Vec<u8>> = vec![];
            for tc in [4u8, 11, 19, 29, 31, 0] {
                let mut me = gen_me(&mut rng, tc);
                if tc == 31 {
                    set(&mut me, 6, 3, 3);
                }
                frames.push(squitter(17, 5, 0x40621d, &me));
                frames.push(squitter(18, 2, 0x40621d, &me));
            }
            begin_case(w, &frames[0]);
            let r = catch_unwind(AssertUnwindSafe(|| {
                for i in 0..n_long {
                    if i % 1024 == 0 {
                        HEARTBEAT[w].store(now_ms(), Ordering::Relaxed);
                    }
                    if let Ok(Ok(f)) = catch_unwind(AssertUnwindSafe(|| Frame::from_bytes(&frames[i as usize % frames.len()]))) {
                        let _ = lt.planes.action(f, lt.rx, lt.range);
                    }
                }
            }));
            // ... and one aircraft on a long consistent flight (its track grows with every report)
            // (no heartbeat inside it: the watchdog does not time this one - on a loaded machine its
            // 20 000 reports with a growing track take tens of seconds; the dispatcher's overall
            // ceiling still applies)
            let n_flight = 20_000usize;
            end_worker(w);
            for (sig, msg) in crate::tracker::long_flight_check(n_flight).into_iter().filter(|f| f.0.starts_with("C01")) {
                st.fail(Failure { sig, msg, replay: json!({"kind":"long_flight","n":n_flight}) });
            }
            begin_case(w, &frames[0]);
            st.evaluations += n_flight as u64;
            st.nontrivial_enum += 1;
            st.class("long flight of one aircraft (20 k position reports)");
            st.evaluations += n_long as u64;
            st.nontrivial_enum += 1;
            st.class("long-lived aircraft (150 k frames)");
            if r.is_err() {
                st.fail(Failure { sig: "C01/panic/tracker/long_lived".into(), msg: format!("feeding {n_long} frames of one aircraft to the tracker panicked at {}", last_panic()), replay: json!({"kind":"long_lived","n":n_long}) });
            }
        }
        // (c2) payloads filled with one repeated pattern: all eight characters / all fields equal
        // (every 6-bit code repeated from ME/MB bit 9, every byte value repeated), under every
        // type code and BDS code that interprets the payload
        {
            let mut fills: Vec<[u8; 7]> = vec![];
            for v in 0..64u64 {
                let mut p = [0u8; 7];
                for i in 0..8 {
                    set(&mut p, 9 + 6 * i, 6, v);
                }
                fills.push(p);
            }
            for v in 0..=255u8 {
                fills.push([v; 7]);
            }
            for (fi, fill) in fills.iter().enumerate() {
                if fi % WORKERS != w {
                    continue;
                }
                for df in [17u8, 18] {
                    for tc in 0..32u8 {
                        let mut me = *fill;
                        set(&mut me, 1, 5, tc as u64);
                        for sub in if tc == 19 || tc == 31 || tc == 28 { 0..8u64 } else { 0..1u64 } {
                            if tc == 19 || tc == 31 || tc == 28 {
                                set(&mut me, 6, 3, sub);
                            }
                            let b = squitter(df, (fi % 8) as u8, 0xabc000 + (fi as u32 % 6), &me);
                            case(st, &mut t, b, "rejected pattern fill");
                        }
                    }
                }
                for df in [20u8, 21] {
                    for code in [0x00u8, 0x10, 0x20, 0x30, fill[0]] {
                        let mut b = gen_frame_df(&mut rng, df);
                        b[4..11].copy_from_slice(fill);
                        b[4] = code;
                        case(st, &mut t, b, "rejected pattern fill");
                    }
                }
            }
        }
        // (d) all ordered pairs from a pool of decodable position reports
        let mut prng = ctx.rng(101, 0); // same pool in every worker
        let mut pool: Vec<Altitude> = vec![];
        while pool.len() < npool {
            let tc = *prng.pick(&[9u8, 11, 18, 20, 22]);
            let me = gen_me(&mut prng, tc);
            let b = squitter(17, 5, 0x123456, &me);
            // (a decode that panics is a finding of this check, not an accident of the harness)
            match catch_unwind(AssertUnwindSafe(|| Frame::from_bytes(&b))) {
                Ok(Ok(f)) => {
                    if let Some(a) = position_of(&f) {
                        pool.push(a);
                    }
                }
                Ok(Err(_)) => {}
                Err(_) => {
                    let sig = format!("C01/panic/decode/{}", refdec::class_of(&b));
                    if w == 0 && !st.failures.contains_key(&sig) {
                        st.fail(Failure { sig, msg: format!("Frame::from_bytes panicked at {} (frame {})", last_panic(), bits::hex(&b)), replay: json!({"kind":"frame","check":"total","hex":bits::hex(&b)}) });
                    }
                }
            }
        }
        for (i, p) in pool.iter().enumerate() {
            if i % WORKERS != w {
                continue;
            }
            for q in pool.iter() {
                st.eval();
                st.nontrivial_enum += 1;
                if catch_unwind(AssertUnwindSafe(|| {
                    let _ = cpr::get_position((p, q));
                }))
                .is_err()
                {
                    st.fail(Failure {
                        sig: "C01/panic/get_position/pair".into(),
                        msg: format!("get_position panicked at {} on ({:?}/{}/{}, {:?}/{}/{})", last_panic(), p.odd_flag, p.lat_cpr, p.lon_cpr, q.odd_flag, q.lat_cpr, q.lon_cpr),
                        replay: json!({"kind":"pair","check":"total","a":[format!("{:?}", p.odd_flag), p.lat_cpr, p.lon_cpr],"b":[format!("{:?}", q.odd_flag), q.lat_cpr, q.lon_cpr]}),
                    });
                }
            }
            st.class_n("position pair", pool.len() as u64);
        }
        end_worker(w);
    });
    st.notes.insert("max_bytes_allocated_by_one_decode_and_render".into(), json!(MAX_ALLOC.load(Ordering::Relaxed)));
    st.notes.insert("max_allocations_by_one_decode_and_render".into(), json!(MAX_ALLOCS.load(Ordering::Relaxed)));
    st.notes.insert("allocation_bounds".into(), json!({"bytes": ALLOC_BYTES_BOUND, "allocations": ALLOC_COUNT_BOUND}));
    st.exhaustive.push("every value of every ME field <= 10 bits (edges for wider), every TC/subtype, DF17 and DF18".into());
    st.exhaustive.push("every 13-bit AC/ID code in DF0/4/5/16/20/21".into());
    st.exhaustive.push("all ordered pairs of a pool of decoded position reports".into());
    finish(
        ctx,
        st,
        "uniform random byte strings of every length 0..=32, structured frames in exact/truncated/over-long mode (half with pooled addresses so that the tracker pairs reports), field-value sweeps, and all ordered pairs of a pool of position reports; each accepted frame is rendered (Display, Debug), its velocity computed, paired with the previous position report in both orders, and fed to a long-lived tracker whose receiver position / range are drawn from {0, +-90, +-180, tiny, huge, +-inf, NaN, uniform}; oracle: no panic (catch_unwind), allocation of decode+render below a fixed bound (counting global allocator), 20 s watchdog; non-trivial = accepted frame (all operations ran), distinct by hash; pairs distinct by construction",
        &["a hang is reported as inconclusive (exit 2) by the watchdog, never as a violation", "allocation bound 64 KiB / 512 allocations per decode+render is about 20x the largest value observed on the unchanged tree (see notes)"],
        vec![],
    )
}
