//! Frame generators: by construction, every DF / TC / field reachable, edge values favoured.
use crate::bits::{self, set};
use crate::core::RngExt;
use proptest::test_runner::TestRng;

pub type Layout = &'static [(&'static str, usize, usize)];

pub const L_IDENT: Layout = &[("me.ca", 6, 3), ("c1", 9, 6), ("c2", 15, 6), ("c3", 21, 6), ("c4", 27, 6), ("c5", 33, 6), ("c6", 39, 6), ("c7", 45, 6), ("c8", 51, 6)];
pub const L_SURFACE: Layout = &[("me.mov", 6, 7), ("me.s", 13, 1), ("me.trk", 14, 7), ("me.t", 21, 1), ("me.f", 22, 1), ("me.lat", 23, 17), ("me.lon", 40, 17)];
pub const L_AIRBORNE: Layout = &[("me.ss", 6, 2), ("me.saf", 8, 1), ("me.alt", 9, 12), ("me.t", 21, 1), ("me.f", 22, 1), ("me.lat", 23, 17), ("me.lon", 40, 17)];
pub const L_VEL_GS: Layout = &[
    ("me.st", 6, 3),
    ("ic", 9, 1),
    ("ifr", 10, 1),
    ("me.nacv", 11, 3),
    ("me.ewsign", 14, 1),
    ("me.ew", 15, 10),
    ("me.nssign", 25, 1),
    ("me.ns", 26, 10),
    ("me.vrsrc", 36, 1),
    ("me.vrsign", 37, 1),
    ("me.vr", 38, 9),
    ("rsv", 47, 2),
    ("me.gnsssign", 49, 1),
    ("me.gnssdiff", 50, 7),
];
pub const L_VEL_AS: Layout = &[
    ("me.st", 6, 3),
    ("ic", 9, 1),
    ("ifr", 10, 1),
    ("me.nacv", 11, 3),
    ("me.hdgstatus", 14, 1),
    ("me.hdg", 15, 10),
    ("me.astype", 25, 1),
    ("me.as", 26, 10),
    ("me.vrsrc", 36, 1),
    ("me.vrsign", 37, 1),
    ("me.vr", 38, 9),
    ("rsv", 47, 2),
    ("me.gnsssign", 49, 1),
    ("me.gnssdiff", 50, 7),
];
pub const L_VEL_RSV: Layout = &[
    ("me.st", 6, 3),
    ("ic", 9, 1),
    ("ifr", 10, 1),
    ("me.nacv", 11, 3),
    ("me.sub22", 14, 22),
    ("me.vrsrc", 36, 1),
    ("me.vrsign", 37, 1),
    ("me.vr", 38, 9),
    ("rsv", 47, 2),
    ("me.gnsssign", 49, 1),
    ("me.gnssdiff", 50, 7),
];
pub const L_STATUS: Layout = &[("me.st", 6, 3), ("me.emergency", 9, 3), ("me.squawk", 12, 13), ("rsv", 25, 32)];
pub const L_TSS: Layout = &[
    ("me.subtype", 6, 2),
    ("silsupp", 8, 1),
    ("me.isfms", 9, 1),
    ("me.altitude", 10, 11),
    ("me.qnh", 21, 9),
    ("me.ishdg", 30, 1),
    ("me.hdg", 31, 9),
    ("me.nacp", 40, 4),
    ("me.nicbaro", 44, 1),
    ("me.sil", 45, 2),
    ("me.modevalid", 47, 1),
    ("me.autopilot", 48, 1),
    ("me.vnav", 49, 1),
    ("me.althold", 50, 1),
    ("me.imf", 51, 1),
    ("me.approach", 52, 1),
    ("me.tcas", 53, 1),
    ("me.lnav", 54, 1),
    ("rsv", 55, 2),
];
pub const L_OPS_AIR: Layout = &[
    ("st", 6, 3),
    ("r0", 9, 2),
    ("me.cc.acas", 11, 1),
    ("me.cc.cdti", 12, 1),
    ("r1", 13, 2),
    ("me.cc.arv", 15, 1),
    ("me.cc.ts", 16, 1),
    ("me.cc.tc", 17, 2),
    ("rsv19", 19, 6),
    ("omr", 25, 2),
    ("me.om.ra", 27, 1),
    ("me.om.ident", 28, 1),
    ("me.om.atc", 29, 1),
    ("me.om.saf", 30, 1),
    ("me.om.sda", 31, 2),
    ("rsv33", 33, 8),
    ("me.version", 41, 3),
    ("me.nica", 44, 1),
    ("me.nacp", 45, 4),
    ("me.gva", 49, 2),
    ("me.sil", 51, 2),
    ("me.bit53", 53, 1),
    ("me.hrd", 54, 1),
    ("me.silsupp", 55, 1),
    ("rsv56", 56, 1),
];
pub const L_OPS_SURF: Layout = &[
    ("st", 6, 3),
    ("r0", 9, 2),
    ("me.cc.poa", 11, 1),
    ("me.cc.es1090", 12, 1),
    ("r1", 13, 2),
    ("me.cc.b2low", 15, 1),
    ("me.cc.uatin", 16, 1),
    ("me.cc.nacv", 17, 3),
    ("me.cc.nicc", 20, 1),
    ("me.lw", 21, 4),
    ("omr", 25, 2),
    ("me.om.ra", 27, 1),
    ("me.om.ident", 28, 1),
    ("me.om.atc", 29, 1),
    ("me.om.saf", 30, 1),
    ("me.om.sda", 31, 2),
    ("me.antoff", 33, 8),
    ("me.version", 41, 3),
    ("me.nica", 44, 1),
    ("me.nacp", 45, 4),
    ("rsv49", 49, 2),
    ("me.sil", 51, 2),
    ("me.bit53", 53, 1),
    ("me.hrd", 54, 1),
    ("me.silsupp", 55, 1),
    ("rsv56", 56, 1),
];
pub const L_OPAQUE: Layout = &[("payload", 6, 51)];
pub const L_BDS10: Layout = &[
    ("bds.continuation", 9, 1),
    ("rsv10", 10, 5),
    ("bds.overlay", 15, 1),
    ("bds.acas", 16, 1),
    ("bds.subnet_version", 17, 7),
    ("bds.enhanced_protocol", 24, 1),
    ("bds.specific_services", 25, 1),
    ("bds.uplink_elm", 26, 3),
    ("bds.downlink_elm", 29, 4),
    ("bds.ident_capability", 33, 1),
    ("bds.squitter_capability", 34, 1),
    ("bds.sic", 35, 1),
    ("bds.gicb", 36, 1),
    ("bds.acas_reserved", 37, 4),
    ("bds.bit_array", 41, 16),
];
pub const L_BDS20: Layout = &[("c1", 9, 6), ("c2", 15, 6), ("c3", 21, 6), ("c4", 27, 6), ("c5", 33, 6), ("c6", 39, 6), ("c7", 45, 6), ("c8", 51, 6)];
pub const L_BDS_OPAQUE: Layout = &[("payload", 9, 48)];

/// layout of an ME field (7 bytes) by type code / subtype
pub fn me_layout(me: &[u8]) -> Layout {
    let tc = me[0] >> 3;
    let st = me[0] & 7;
    match tc {
        1..=4 => L_IDENT,
        5..=8 => L_SURFACE,
        9..=18 | 20..=22 => L_AIRBORNE,
        19 => match st {
            1 | 2 => L_VEL_GS,
            3 | 4 => L_VEL_AS,
            _ => L_VEL_RSV,
        },
        28 => L_STATUS,
        29 => L_TSS,
        31 => match st {
            0 => L_OPS_AIR,
            1 => L_OPS_SURF,
            _ => L_OPAQUE,
        },
        _ => L_OPAQUE,
    }
}

pub fn mb_layout(mb: &[u8]) -> Layout {
    match mb[0] {
        0x10 => L_BDS10,
        0x20 => L_BDS20,
        _ => L_BDS_OPAQUE,
    }
}

pub fn edge_value(rng: &mut TestRng, len: usize) -> u64 {
    let max = if len >= 64 { u64::MAX } else { (1u64 << len) - 1 };
    match rng.below(8) {
        0 => 0,
        1 => 1.min(max),
        2 => max,
        3 => max.saturating_sub(1),
        4 => {
            // a power of two, or one below / above it (sign bits, carries, half-range boundaries)
            let k = rng.below(len.max(1) as u64);
            let p = 1u64 << k;
            match rng.below(3) {
                0 => p & max,
                1 => p.saturating_sub(1) & max,
                _ => (p + 1) & max,
            }
        }
        _ => rng.bits(len as u32),
    }
}

/// apply edge values to ~1/3 of the fields of a layout
pub fn edge_fields(rng: &mut TestRng, region: &mut [u8], layout: Layout) {
    for (_, start, len) in layout {
        if rng.chance(1, 3) {
            let v = edge_value(rng, *len);
            set(region, *start, *len, v);
        }
    }
}

pub const SUPPORTED_DF: [u8; 18] = [0, 4, 5, 11, 16, 17, 18, 19, 20, 21, 24, 25, 26, 27, 28, 29, 30, 31];
pub const UNSUPPORTED_DF: [u8; 14] = [1, 2, 3, 6, 7, 8, 9, 10, 12, 13, 14, 15, 22, 23];

/// make a type-31 subtype 0/1 ME acceptable to the version 0-2 layout
pub fn make_ops_acceptable(rng: &mut TestRng, me: &mut [u8]) {
    set(me, 9, 2, 0);
    set(me, 13, 2, 0);
    set(me, 25, 2, 0);
    let v = rng.below(3);
    set(me, 41, 3, v);
}

/// Random 7-byte ME with the given type code; fields edge-biased.
pub fn gen_me(rng: &mut TestRng, tc: u8) -> [u8; 7] {
    let mut me = [0u8; 7];
    let r = rng.bytes(7);
    me.copy_from_slice(&r);
    set(&mut me, 1, 5, tc as u64);
    let layout = me_layout(&me);
    edge_fields(rng, &mut me, layout);
    set(&mut me, 1, 5, tc as u64);
    if tc == 31 && (me[0] & 7) <= 1 && rng.chance(9, 10) {
        make_ops_acceptable(rng, &mut me);
    }
    me
}

pub fn gen_mb(rng: &mut TestRng) -> [u8; 7] {
    let mut mb = [0u8; 7];
    let r = rng.bytes(7);
    mb.copy_from_slice(&r);
    mb[0] = match rng.below(8) {
        0 | 1 => 0x00,
        2 | 3 => 0x10,
        4 | 5 => 0x20,
        _ => mb[0],
    };
    let layout = mb_layout(&mb);
    let keep = mb[0];
    edge_fields(rng, &mut mb, layout);
    mb[0] = keep;
    mb
}

/// A structured frame of exactly the required length for a supported DF (or 14 bytes for an
/// unsupported one).  Parity: random, or fixed up to a chosen syndrome.
pub fn gen_frame_df(rng: &mut TestRng, df: u8) -> Vec<u8> {
    let n = bits::required_len(df);
    let mut b = rng.bytes(n);
    set(&mut b, 1, 5, df as u64);
    // header fields edge-biased
    match df {
        0 | 16 => edge_fields(rng, &mut b, &[("vs", 6, 1), ("cc", 7, 1), ("sl", 9, 3), ("ri", 14, 4), ("ac", 20, 13)]),
        4 | 5 | 20 | 21 => edge_fields(rng, &mut b, &[("fs", 6, 3), ("dr", 9, 5), ("iis", 14, 4), ("ids", 18, 2), ("ac", 20, 13)]),
        11 | 17 | 18 | 24..=31 => edge_fields(rng, &mut b, &[("ca", 6, 3), ("aa", 9, 24)]),
        _ => {}
    }
    if df == 17 || df == 18 {
        let tc = rng.below(32) as u8;
        let me = gen_me(rng, tc);
        b[4..11].copy_from_slice(&me);
    }
    if df == 20 || df == 21 {
        let mb = gen_mb(rng);
        b[4..11].copy_from_slice(&mb);
    }
    if bits::df_supported(df) {
        match rng.below(4) {
            0 => bits::fix_parity(&mut b, 0),
            1 => {
                let t = rng.bits(24) as u32;
                bits::fix_parity(&mut b, t)
            }
            _ => {
                // the trailing 24 bits (AP / PI) at an edge value: all-zero, all-one, ...
                if rng.chance(1, 4) {
                    let v = edge_value(rng, 24);
                    let at = n * 8 - 24;
                    set(&mut b, at, 24, v);
                }
            }
        }
    }
    b
}

pub fn gen_df(rng: &mut TestRng) -> u8 {
    if rng.chance(4, 5) {
        // DF17/18 get extra weight: they carry most of the structure
        if rng.chance(1, 2) {
            *rng.pick(&[17u8, 18])
        } else {
            *rng.pick(&SUPPORTED_DF)
        }
    } else {
        *rng.pick(&UNSUPPORTED_DF)
    }
}

pub fn gen_frame(rng: &mut TestRng) -> Vec<u8> {
    let df = gen_df(rng);
    gen_frame_df(rng, df)
}

#[derive(Clone, Copy, PartialEq, Eq, Debug)]
pub enum LenMode {
    Exact,
    Truncated,
    OverLong,
}

/// apply a length mode: exact, truncated to 0..req-1, or extended up to 32 bytes with a random tail
pub fn with_len_mode(rng: &mut TestRng, mut b: Vec<u8>) -> (Vec<u8>, LenMode) {
    match rng.below(6) {
        0 => {
            let n = rng.below(b.len() as u64) as usize;
            b.truncate(n);
            (b, LenMode::Truncated)
        }
        1 | 2 => {
            let extra = 1 + rng.below((32 - b.len()) as u64) as usize;
            let t = rng.bytes(extra);
            b.extend_from_slice(&t);
            (b, LenMode::OverLong)
        }
        _ => (b, LenMode::Exact),
    }
}

/// A valid (crc == 0) DF17 frame with the given address and ME.
pub fn df17(ca: u8, aa: u32, me: &[u8; 7]) -> Vec<u8> {
    squitter(17, ca, aa, me)
}

pub fn squitter(df: u8, ca: u8, aa: u32, me: &[u8; 7]) -> Vec<u8> {
    let mut b = vec![0u8; 14];
    b[0] = (df << 3) | (ca & 7);
    b[1] = (aa >> 16) as u8;
    b[2] = (aa >> 8) as u8;
    b[3] = aa as u8;
    b[4..11].copy_from_slice(me);
    bits::fix_parity(&mut b, 0);
    b
}
