//! Reference airborne CPR encoder + exact global decoder (DO-260B A.1.7), NL from the closed formula,
//! great-circle helpers.  Independent of libadsb_deku/src/cpr.rs (which has a decoder only, with a
//! pre-computed NL table).
use std::f64::consts::PI;

pub const NZ: f64 = 15.0;
pub const NB: f64 = 131072.0; // 2^17

pub fn dlat(i: u32) -> f64 {
    360.0 / (4.0 * NZ - i as f64)
}

/// transition latitude for NL (2..=59): smallest |lat| at which the zone count drops below NL
pub fn nl_transition(nl: u32) -> f64 {
    let a = 1.0 - (PI / (2.0 * NZ)).cos();
    let b = 1.0 - (2.0 * PI / nl as f64).cos();
    (a / b).sqrt().acos().to_degrees()
}

pub fn transitions() -> Vec<f64> {
    // NL = 59 for |lat| < t(59); ... ; NL = 2 for |lat| < 87; NL = 1 above
    (2..=59).map(nl_transition).collect()
}

/// distance (deg) of |lat| to the nearest transition latitude
pub fn near_transition(lat: f64) -> f64 {
    let l = lat.abs();
    let mut best = (l - 87.0).abs();
    for nl in 3..=59 {
        let d = (l - nl_transition(nl)).abs();
        if d < best {
            best = d;
        }
    }
    best
}

/// NL(lat) by definition: number of longitude zones; closed formula (A.1.7.2 d)
pub fn nl(lat: f64) -> u32 {
    let l = lat.abs();
    if l == 0.0 {
        return 59;
    }
    if l == 87.0 {
        return 2;
    }
    if l > 87.0 {
        return 1;
    }
    let a = 1.0 - (PI / (2.0 * NZ)).cos();
    let c = l.to_radians().cos();
    let x = 1.0 - a / (c * c);
    (2.0 * PI / x.acos()).floor() as u32
}

fn fmod_pos(a: f64, b: f64) -> f64 {
    let r = a - b * (a / b).floor();
    if r < 0.0 || r >= b {
        0.0
    } else {
        r
    }
}

/// Encoder: (YZ mod 2^17, XZ mod 2^17, Rlat) for parity i (0 even, 1 odd)
pub fn encode(lat: f64, lon: f64, i: u32) -> (u32, u32, f64) {
    let dl = dlat(i);
    let yz = (NB * fmod_pos(lat, dl) / dl + 0.5).floor();
    let rlat = dl * (yz / NB + (lat / dl).floor());
    let n = nl(rlat).saturating_sub(i).max(1);
    let dlon = 360.0 / n as f64;
    let xz = (NB * fmod_pos(lon, dlon) / dlon + 0.5).floor();
    ((yz as u64 % 131072) as u32, (xz as u64 % 131072) as u32, rlat)
}

#[derive(Clone, Copy, Debug, PartialEq)]
pub enum RefDecode {
    /// NL(Rlat_even) != NL(Rlat_odd); carries both recovered latitudes (for the guard band)
    ZoneMismatch { rlat_e: f64, rlat_o: f64 },
    /// recovered latitude of the latest report outside [-90, 90]
    LatOutOfRange,
    /// only the older report's recovered latitude is outside [-90, 90] (verdict left open)
    OtherLatOutOfRange,
    /// latitude, longitude (of the report with parity `latest`), recovered latitudes of both
    Pos { lat: f64, lon: f64, rlat_e: f64, rlat_o: f64 },
}

fn imod(a: i64, b: i64) -> i64 {
    ((a % b) + b) % b
}

/// Exact global decode of (even, odd) raw values, result for parity `latest`.
pub fn decode(yz0: u32, xz0: u32, yz1: u32, xz1: u32, latest: u32) -> RefDecode {
    // j = floor((59 YZ0 - 60 YZ1) / 2^17 + 1/2), in integers: floor((2*(59 YZ0 - 60 YZ1) + 2^17) / 2^18)
    let num = 2 * (59 * yz0 as i64 - 60 * yz1 as i64) + 131072;
    let j = num.div_euclid(262144);
    let mut rlat_e = dlat(0) * (imod(j, 60) as f64 + yz0 as f64 / NB);
    let mut rlat_o = dlat(1) * (imod(j, 59) as f64 + yz1 as f64 / NB);
    if rlat_e >= 270.0 {
        rlat_e -= 360.0;
    }
    if rlat_o >= 270.0 {
        rlat_o -= 360.0;
    }
    let lat = if latest == 0 { rlat_e } else { rlat_o };
    let other = if latest == 0 { rlat_o } else { rlat_e };
    if !(-90.0..=90.0).contains(&lat) {
        return RefDecode::LatOutOfRange;
    }
    if !(-90.0..=90.0).contains(&other) {
        return RefDecode::OtherLatOutOfRange;
    }
    let nl_e = nl(rlat_e);
    let nl_o = nl(rlat_o);
    if nl_e != nl_o {
        return RefDecode::ZoneMismatch { rlat_e, rlat_o };
    }
    let nlv = nl_e as i64;
    let n = (nlv - latest as i64).max(1);
    let num = 2 * (xz0 as i64 * (nlv - 1) - xz1 as i64 * nlv) + 131072;
    let m = num.div_euclid(262144);
    let xz = if latest == 0 { xz0 } else { xz1 };
    let mut lon = (360.0 / n as f64) * (imod(m, n) as f64 + xz as f64 / NB);
    if lon >= 180.0 {
        lon -= 360.0;
    }
    RefDecode::Pos { lat, lon, rlat_e, rlat_o }
}

pub const R_EARTH_KM: f64 = 6371.0;

/// great-circle distance in km on a sphere of R = 6371 km (atan2 / Vincenty-on-sphere form)
pub fn dist_km(a: (f64, f64), b: (f64, f64)) -> f64 {
    let (p1, l1, p2, l2) = (a.0.to_radians(), a.1.to_radians(), b.0.to_radians(), b.1.to_radians());
    let dl = l2 - l1;
    let y = ((p2.cos() * dl.sin()).powi(2) + (p1.cos() * p2.sin() - p1.sin() * p2.cos() * dl.cos()).powi(2)).sqrt();
    let x = p1.sin() * p2.sin() + p1.cos() * p2.cos() * dl.cos();
    R_EARTH_KM * y.atan2(x)
}

/// destination from (lat, lon) along `bearing` degrees for `d_km`; longitude normalised to [-180, 180)
pub fn destination(p: (f64, f64), bearing: f64, d_km: f64) -> (f64, f64) {
    let (p1, l1) = (p.0.to_radians(), p.1.to_radians());
    let th = bearing.to_radians();
    let dr = d_km / R_EARTH_KM;
    let p2 = (p1.sin() * dr.cos() + p1.cos() * dr.sin() * th.cos()).clamp(-1.0, 1.0).asin();
    let l2 = l1 + (th.sin() * dr.sin() * p1.cos()).atan2(dr.cos() - p1.sin() * p2.sin());
    let mut lon = l2.to_degrees();
    while lon >= 180.0 {
        lon -= 360.0;
    }
    while lon < -180.0 {
        lon += 360.0;
    }
    (p2.to_degrees().clamp(-90.0, 90.0), lon)
}

pub fn lon_diff(a: f64, b: f64) -> f64 {
    let mut d = (a - b).abs() % 360.0;
    if d > 180.0 {
        d = 360.0 - d;
    }
    d
}
