//! Reference field decoder written from Annex 10 vol IV / DO-260B / ICAO 9871 bit tables
//! (`expected`), and the flattening of the library's decoded `Frame` into the same field map
//! (`actual`).  Nothing in `expected` calls into the library.
use crate::bits::{self, get};
use adsb_deku::adsb::*;
use adsb_deku::bds::BDS;
use adsb_deku::*;
use std::collections::BTreeMap;

#[derive(Clone, Debug, PartialEq)]
pub enum Val {
    U(u64),
    I(i64),
    /// value, absolute tolerance
    F(f64, f64),
    S(String),
    /// optional value that is absent
    Absent,
    /// oracle leaves it open
    Any,
    OneOf(Vec<Val>),
}

impl Val {
    pub fn accepts(&self, actual: &Val) -> bool {
        match (self, actual) {
            (Val::Any, _) => true,
            (Val::OneOf(vs), a) => vs.iter().any(|v| v.accepts(a)),
            (Val::F(e, tol), Val::F(a, _)) => (e - a).abs() <= *tol || (e.is_nan() && a.is_nan()),
            (Val::U(e), Val::I(a)) => *a >= 0 && *e == *a as u64,
            (Val::I(e), Val::U(a)) => *e >= 0 && *e as u64 == *a,
            (e, a) => e == a,
        }
    }
    pub fn show(&self) -> String {
        match self {
            Val::U(u) => format!("{u}"),
            Val::I(u) => format!("{u}"),
            Val::F(f, _) => format!("{f}"),
            Val::S(s) => format!("{s:?}"),
            Val::Absent => "none".into(),
            Val::Any => "<any>".into(),
            Val::OneOf(v) => format!("one of [{}]", v.iter().map(|x| x.show()).collect::<Vec<_>>().join(", ")),
        }
    }
}

pub type Fields = BTreeMap<String, Val>;

#[derive(Clone, Debug)]
pub enum Expect {
    Reject,
    /// the statement leaves acceptance open
    DontCare,
    Accept(Fields),
}

fn u(f: &mut Fields, k: &str, v: u64) {
    f.insert(k.to_string(), Val::U(v));
}
fn s(f: &mut Fields, k: &str, v: &str) {
    f.insert(k.to_string(), Val::S(v.to_string()));
}

pub const DF_NAMES: [(u8, &str); 11] = [
    (0, "ShortAirAirSurveillance"),
    (4, "SurveillanceAltitudeReply"),
    (5, "SurveillanceIdentityReply"),
    (11, "AllCallReply"),
    (16, "LongAirAir"),
    (17, "ADSB"),
    (18, "TisB"),
    (19, "ExtendedQuitterMilitaryApplication"),
    (20, "CommBAltitudeReply"),
    (21, "CommBIdentityReply"),
    (24, "ModeSExtendedSquitter"),
];

pub fn df_name(df: u8) -> &'static str {
    let d = if df >= 24 { 24 } else { df };
    DF_NAMES.iter().find(|x| x.0 == d).map(|x| x.1).unwrap_or("?")
}

pub fn me_kind_name(tc: u8) -> &'static str {
    match tc {
        0 => "NoPosition",
        1..=4 => "AircraftIdentification",
        5..=8 => "SurfacePosition",
        9..=18 => "AirbornePositionBaroAltitude",
        19 => "AirborneVelocity",
        20..=22 => "AirbornePositionGNSSAltitude",
        23 => "Reserved0",
        24 => "SurfaceSystemStatus",
        25..=27 => "Reserved1",
        28 => "AircraftStatus",
        29 => "TargetStateAndStatusInformation",
        30 => "AircraftOperationalCoordination",
        _ => "AircraftOperationStatus",
    }
}

/// Input class used in signatures and histograms: DF, TC (+ subtype), reserved-capability marker.
pub fn class_of(buf: &[u8]) -> String {
    if buf.is_empty() {
        return "empty".into();
    }
    let df = (buf[0] >> 3) as u8;
    let mut c = format!("DF{df:02}");
    if !bits::df_supported(df) {
        return c + "/unsupported";
    }
    if buf.len() < bits::required_len(df) {
        return c + "/short";
    }
    if matches!(df, 11 | 17 | 24..=31) {
        let ca = buf[0] & 7;
        if (1..=3).contains(&ca) {
            c += "/CAr";
        }
    }
    if df == 17 || df == 18 {
        let tc = buf[4] >> 3;
        c += &format!("/TC{tc:02}");
        if tc == 19 || tc == 31 || tc == 28 {
            c += &format!(".{}", buf[4] & 7);
        }
    }
    if df == 20 || df == 21 {
        let b = buf[4];
        c += match b {
            0x00 => "/BDS00",
            0x10 => "/BDS10",
            0x20 => "/BDS20",
            _ => "/BDSxx",
        };
    }
    if df == 4 || df == 5 || df == 20 || df == 21 {
        let dr = get(buf, 9, 5);
        if !matches!(dr, 0 | 1 | 4 | 5) {
            c += "/DRu";
        }
    }
    c
}

// ---------------------------------------------------------------------------------------------
// altitude / identity reference decoders
// ---------------------------------------------------------------------------------------------

fn gray2int(mut n: u32) -> u32 {
    n ^= n >> 8;
    n ^= n >> 4;
    n ^= n >> 2;
    n ^= n >> 1;
    n
}

/// Gillham (Mode C) altitude in feet from the 13-bit field layout
/// C1 A1 C2 A2 C4 A4 M B1 D1 B2 D2 B4 D4 (MSB..LSB); None = illegal pattern.
/// Gray code for 500 ft: D1 D2 D4 A1 A2 A4 B1 B2 B4; for 100 ft: C1 C2 C4 (pyModeS formulation).
pub fn gillham_ft(code13: u32) -> Option<i64> {
    let b = |m: u32| -> u32 { (code13 & m != 0) as u32 };
    let (c1, a1, c2, a2, c4, a4) = (b(0x1000), b(0x0800), b(0x0400), b(0x0200), b(0x0100), b(0x0080));
    let (b1, d1, b2, d2, b4, d4) = (b(0x0020), b(0x0010), b(0x0008), b(0x0004), b(0x0002), b(0x0001));
    if d1 == 1 {
        return None; // D1 is never used for altitude (would be > 126 000 ft)
    }
    let gc500 = (d2 << 7) | (d4 << 6) | (a1 << 5) | (a2 << 4) | (a4 << 3) | (b1 << 2) | (b2 << 1) | b4;
    let gc100 = (c1 << 2) | (c2 << 1) | c4;
    let n500 = gray2int(gc500);
    let mut n100 = gray2int(gc100);
    if n100 == 0 || n100 == 5 || n100 == 6 {
        return None;
    }
    if n100 == 7 {
        n100 = 5;
    }
    if n500 % 2 == 1 {
        n100 = 6 - n100;
    }
    Some(n500 as i64 * 500 + n100 as i64 * 100 - 1300)
}

/// Annex 10 altitude of a 13-bit AC field in feet; None = "no altitude".
pub fn ac13_ft(code: u32) -> Option<i64> {
    if code == 0 {
        return None;
    }
    if code & 0x0040 != 0 {
        return None; // metric
    }
    if code & 0x0010 != 0 {
        let n = ((code & 0x1f80) >> 2) | ((code & 0x0020) >> 1) | (code & 0x000f);
        Some(25 * n as i64 - 1000)
    } else {
        gillham_ft(code)
    }
}

/// Annex 10 / DO-260B altitude of a 12-bit AC field (the 13-bit field with the M bit removed).
pub fn ac12_ft(code: u32) -> Option<i64> {
    if code == 0 {
        return None;
    }
    if code & 0x10 != 0 {
        let n = ((code & 0x0fe0) >> 1) | (code & 0x000f);
        Some(25 * n as i64 - 1000)
    } else {
        let c13 = ((code & 0x0fc0) << 1) | (code & 0x003f);
        gillham_ft(c13)
    }
}

/// Expected presentation of an altitude in a u16-typed result: positive & representable or none.
/// An altitude of exactly 0 ft may be shown either way.
pub fn alt_val_u16(ft: Option<i64>, none: Val) -> Val {
    match ft {
        Some(0) => Val::OneOf(vec![none, Val::U(0)]),
        Some(a) if a > 0 && a <= u16::MAX as i64 => Val::U(a as u64),
        _ => none,
    }
}

/// four octal digits ABCD presented as hex-coded digits, from C1 A1 C2 A2 C4 A4 X B1 D1 B2 D2 B4 D4
pub fn squawk_of(code13: u32) -> u32 {
    let b = |pos_from_msb: u32| -> u32 { (code13 >> (12 - pos_from_msb)) & 1 };
    let (c1, a1, c2, a2, c4, a4) = (b(0), b(1), b(2), b(3), b(4), b(5));
    let (b1, d1, b2, d2, b4, d4) = (b(7), b(8), b(9), b(10), b(11), b(12));
    let a = a4 * 4 + a2 * 2 + a1;
    let bb = b4 * 4 + b2 * 2 + b1;
    let c = c4 * 4 + c2 * 2 + c1;
    let d = d4 * 4 + d2 * 2 + d1;
    a * 0x1000 + bb * 0x100 + c * 0x10 + d
}

/// Annex 10 6-bit character set
pub fn ais_char(c: u8) -> char {
    match c {
        1..=26 => (b'A' + c - 1) as char,
        32 => ' ',
        48..=57 => (b'0' + c - 48) as char,
        _ => '#',
    }
}

/// eight characters starting at bit `start` of buf
pub fn callsign_raw(buf: &[u8], start: usize) -> String {
    (0..8).map(|i| ais_char(get(buf, start + 6 * i, 6) as u8)).collect()
}

/// callsign comparison: modulo spaces, and the actual must not have leading/trailing space
pub fn callsign_ok(expected_raw: &str, actual: &str) -> bool {
    let strip = |s: &str| s.chars().filter(|c| *c != ' ').collect::<String>();
    strip(expected_raw) == strip(actual) && actual.trim() == actual
}

// ---------------------------------------------------------------------------------------------
// expected
// ---------------------------------------------------------------------------------------------

pub fn expected(buf: &[u8]) -> Expect {
    if buf.is_empty() {
        return Expect::Reject;
    }
    let df = (buf[0] >> 3) as u8;
    if !bits::df_supported(df) {
        return Expect::Reject;
    }
    let req = bits::required_len(df);
    if buf.len() < req {
        return Expect::Reject;
    }
    let buf = &buf[..req];
    let mut f = Fields::new();
    s(&mut f, "df", df_name(df));
    u(&mut f, "crc", bits::refcrc(buf) as u64);
    let nbits = req * 8;
    let trailer = get(buf, nbits - 23, 24);
    match df {
        0 | 16 => {
            u(&mut f, "vs", get(buf, 6, 1));
            if df == 0 {
                u(&mut f, "cc", get(buf, 7, 1));
            }
            u(&mut f, "sl", get(buf, 9, 3));
            u(&mut f, "ri", get(buf, 14, 4));
            f.insert("alt13".into(), alt_val_u16(ac13_ft(get(buf, 20, 13) as u32), Val::U(0)));
            if df == 16 {
                u(&mut f, "mv", get(buf, 33, 56));
            }
            u(&mut f, "trailer", trailer);
        }
        4 | 5 | 20 | 21 => {
            u(&mut f, "fs", get(buf, 6, 3));
            u(&mut f, "dr", get(buf, 9, 5));
            u(&mut f, "iis", get(buf, 14, 4));
            u(&mut f, "ids", get(buf, 18, 2));
            if df == 4 || df == 20 {
                f.insert("alt13".into(), alt_val_u16(ac13_ft(get(buf, 20, 13) as u32), Val::U(0)));
            } else {
                u(&mut f, "id13", squawk_of(get(buf, 20, 13) as u32) as u64);
            }
            if df >= 20 {
                bds_fields(&buf[4..11], &mut f);
            }
            if df != 20 {
                // the library's DF20 variant has no trailing field
                u(&mut f, "trailer", trailer);
            }
        }
        11 => {
            u(&mut f, "ca", get(buf, 6, 3));
            u(&mut f, "aa", get(buf, 9, 24));
            u(&mut f, "trailer", trailer);
        }
        17 | 18 => {
            if df == 17 {
                u(&mut f, "ca", get(buf, 6, 3));
            } else {
                u(&mut f, "cf", get(buf, 6, 3));
            }
            u(&mut f, "aa", get(buf, 9, 24));
            u(&mut f, "trailer", trailer);
            match me_fields(&buf[4..11], &mut f) {
                MeVerdict::Accept => {}
                MeVerdict::Reject => return Expect::Reject,
                MeVerdict::DontCare => return Expect::DontCare,
            }
        }
        19 => {
            u(&mut f, "af", get(buf, 6, 3));
        }
        _ => {
            u(&mut f, "dfcode", df as u64);
            u(&mut f, "ca", get(buf, 6, 3));
            u(&mut f, "aa", get(buf, 9, 24));
            u(&mut f, "x.type_code", get(buf, 33, 5));
            u(&mut f, "x.adsb_data", get(buf, 38, 51));
            u(&mut f, "trailer", trailer);
        }
    }
    Expect::Accept(f)
}

pub enum MeVerdict {
    Accept,
    Reject,
    DontCare,
}

fn bds_fields(mb: &[u8], f: &mut Fields) {
    let code = mb[0];
    match code {
        0x00 => s(f, "bds.kind", "Empty"),
        0x10 => {
            s(f, "bds.kind", "DataLinkCapability");
            u(f, "bds.continuation", get(mb, 9, 1));
            u(f, "bds.overlay", get(mb, 15, 1));
            u(f, "bds.acas", get(mb, 16, 1));
            u(f, "bds.subnet_version", get(mb, 17, 7));
            u(f, "bds.enhanced_protocol", get(mb, 24, 1));
            u(f, "bds.specific_services", get(mb, 25, 1));
            u(f, "bds.uplink_elm", get(mb, 26, 3));
            u(f, "bds.downlink_elm", get(mb, 29, 4));
            u(f, "bds.ident_capability", get(mb, 33, 1));
            u(f, "bds.squitter_capability", get(mb, 34, 1));
            u(f, "bds.sic", get(mb, 35, 1));
            u(f, "bds.gicb", get(mb, 36, 1));
            u(f, "bds.acas_reserved", get(mb, 37, 4));
            u(f, "bds.bit_array", get(mb, 41, 16));
        }
        0x20 => {
            s(f, "bds.kind", "AircraftIdentification");
            s(f, "bds.cn", &callsign_raw(mb, 9));
        }
        _ => {
            s(f, "bds.kind", "Unknown");
            u(f, "bds.code", code as u64);
        }
    }
}

/// me = the 7 ME bytes (ME bit 1 = MSB of me[0])
pub fn me_fields(me: &[u8], f: &mut Fields) -> MeVerdict {
    let tc = get(me, 1, 5) as u8;
    s(f, "me.kind", me_kind_name(tc));
    match tc {
        1..=4 => {
            u(f, "me.tc", tc as u64);
            u(f, "me.ca", get(me, 6, 3));
            s(f, "me.cn", &callsign_raw(me, 9));
        }
        5..=8 => {
            u(f, "me.mov", get(me, 6, 7));
            u(f, "me.s", get(me, 13, 1));
            u(f, "me.trk", get(me, 14, 7));
            u(f, "me.t", get(me, 21, 1));
            u(f, "me.f", get(me, 22, 1));
            u(f, "me.lat", get(me, 23, 17));
            u(f, "me.lon", get(me, 40, 17));
        }
        9..=18 | 20..=22 => {
            u(f, "me.tc", tc as u64);
            u(f, "me.ss", get(me, 6, 2));
            u(f, "me.saf", get(me, 8, 1));
            f.insert("me.alt".into(), alt_val_u16(ac12_ft(get(me, 9, 12) as u32), Val::Absent));
            u(f, "me.t", get(me, 21, 1));
            u(f, "me.f", get(me, 22, 1));
            u(f, "me.lat", get(me, 23, 17));
            u(f, "me.lon", get(me, 40, 17));
        }
        19 => {
            let st = get(me, 6, 3);
            u(f, "me.st", st);
            u(f, "me.nacv", get(me, 11, 3));
            match st {
                1 | 2 => {
                    s(f, "me.sub", "GroundSpeedDecoding");
                    u(f, "me.ewsign", get(me, 14, 1));
                    u(f, "me.ew", get(me, 15, 10));
                    u(f, "me.nssign", get(me, 25, 1));
                    u(f, "me.ns", get(me, 26, 10));
                }
                3 | 4 => {
                    s(f, "me.sub", "AirspeedDecoding");
                    u(f, "me.hdgstatus", get(me, 14, 1));
                    u(f, "me.hdg", get(me, 15, 10));
                    u(f, "me.astype", get(me, 25, 1));
                    let raw = get(me, 26, 10);
                    let v = raw.saturating_sub(1);
                    if st == 3 {
                        u(f, "me.as", v);
                    } else {
                        f.insert("me.as".into(), Val::OneOf(vec![Val::U(v), Val::U(4 * v)]));
                    }
                }
                0 => {
                    s(f, "me.sub", "Reserved0");
                    // no meaning is assigned to the 22 bits of a reserved subtype
                    f.insert("me.sub22".into(), Val::Any);
                }
                _ => {
                    s(f, "me.sub", "Reserved1");
                    f.insert("me.sub22".into(), Val::Any);
                }
            }
            u(f, "me.vrsrc", get(me, 36, 1));
            u(f, "me.vrsign", get(me, 37, 1));
            u(f, "me.vr", get(me, 38, 9));
            u(f, "me.gnsssign", get(me, 49, 1));
            let d = get(me, 50, 7);
            u(f, "me.gnssdiff", if d > 1 { (d - 1) * 25 } else { 0 });
            // derived velocity
            let calc = velocity_calc(me);
            match calc {
                None => {
                    f.insert("me.calc".into(), Val::Absent);
                }
                Some((trk, spd, vr)) => {
                    f.insert("me.calc".into(), Val::S("some".into()));
                    f.insert("me.calc.track".into(), Val::F(trk, 1e-4));
                    f.insert("me.calc.speed".into(), Val::F(spd, 1e-9 * spd.max(1.0)));
                    f.insert("me.calc.vrate".into(), Val::I(vr));
                }
            }
        }
        28 => {
            let st = get(me, 6, 3);
            s(
                f,
                "me.st",
                match st {
                    0 => "NoInformation",
                    1 => "EmergencyPriorityStatus",
                    2 => "ACASRaBroadcast",
                    _ => "Reserved",
                },
            );
            u(f, "me.emergency", get(me, 9, 3));
            u(f, "me.squawk", squawk_of(get(me, 12, 13) as u32) as u64);
        }
        29 => {
            u(f, "me.subtype", get(me, 6, 2));
            u(f, "me.isfms", get(me, 9, 1));
            let n = get(me, 10, 11);
            u(f, "me.altitude", if n > 1 { (n - 1) * 32 } else { 0 });
            let q = get(me, 21, 9);
            f.insert("me.qnh".into(), Val::F(if q == 0 { 0.0 } else { 800.0 + (q - 1) as f64 * 0.8 }, 1e-3));
            u(f, "me.ishdg", get(me, 30, 1));
            f.insert("me.hdg".into(), Val::F(get(me, 31, 9) as f64 * 180.0 / 256.0, 1e-4));
            u(f, "me.nacp", get(me, 40, 4));
            u(f, "me.nicbaro", get(me, 44, 1));
            u(f, "me.sil", get(me, 45, 2));
            u(f, "me.modevalid", get(me, 47, 1));
            u(f, "me.autopilot", get(me, 48, 1));
            u(f, "me.vnav", get(me, 49, 1));
            u(f, "me.althold", get(me, 50, 1));
            u(f, "me.imf", get(me, 51, 1));
            u(f, "me.approach", get(me, 52, 1));
            u(f, "me.tcas", get(me, 53, 1));
            u(f, "me.lnav", get(me, 54, 1));
        }
        31 => {
            let st = get(me, 6, 3);
            match st {
                0 | 1 => {
                    let version = get(me, 41, 3);
                    let r0 = get(me, 9, 2);
                    let r1 = get(me, 13, 2);
                    let omr = get(me, 25, 2);
                    if version > 2 || r0 != 0 || omr != 0 || (st == 0 && r1 != 0) {
                        return MeVerdict::Reject;
                    }
                    if st == 1 && r1 != 0 {
                        // DO-260B also reserves ME 13-14 as "00" in the surface layout; whether a
                        // frame with them set is rejected is left open
                        return MeVerdict::DontCare;
                    }
                    u(f, "me.om.ra", get(me, 27, 1));
                    u(f, "me.om.ident", get(me, 28, 1));
                    u(f, "me.om.atc", get(me, 29, 1));
                    u(f, "me.om.saf", get(me, 30, 1));
                    u(f, "me.om.sda", get(me, 31, 2));
                    u(f, "me.version", version);
                    u(f, "me.nica", get(me, 44, 1));
                    u(f, "me.nacp", get(me, 45, 4));
                    u(f, "me.sil", get(me, 51, 2));
                    u(f, "me.bit53", get(me, 53, 1));
                    u(f, "me.hrd", get(me, 54, 1));
                    u(f, "me.silsupp", get(me, 55, 1));
                    if st == 0 {
                        s(f, "me.os", "Airborne");
                        u(f, "me.cc.acas", get(me, 11, 1));
                        u(f, "me.cc.cdti", get(me, 12, 1));
                        u(f, "me.cc.arv", get(me, 15, 1));
                        u(f, "me.cc.ts", get(me, 16, 1));
                        u(f, "me.cc.tc", get(me, 17, 2));
                        u(f, "me.gva", get(me, 49, 2));
                    } else {
                        s(f, "me.os", "Surface");
                        u(f, "me.cc.poa", get(me, 11, 1));
                        u(f, "me.cc.es1090", get(me, 12, 1));
                        u(f, "me.cc.b2low", get(me, 15, 1));
                        u(f, "me.cc.uatin", get(me, 16, 1));
                        u(f, "me.cc.nacv", get(me, 17, 3));
                        u(f, "me.cc.nicc", get(me, 20, 1));
                        u(f, "me.lw", get(me, 21, 4));
                        u(f, "me.antoff", get(me, 33, 8));
                    }
                }
                _ => s(f, "me.os", "Reserved"),
            }
        }
        _ => {}
    }
    MeVerdict::Accept
}

/// Derived velocity per the statement of C07: None unless ground-speed subtype and all three raw
/// fields >= 1.  (track deg in [0,360), speed kt, vertical rate ft/min)
pub fn velocity_calc(me: &[u8]) -> Option<(f64, f64, i64)> {
    let st = get(me, 6, 3);
    if st != 1 && st != 2 {
        return None;
    }
    let ew = get(me, 15, 10) as i64;
    let ns = get(me, 26, 10) as i64;
    let vr = get(me, 38, 9) as i64;
    if ew == 0 || ns == 0 || vr == 0 {
        return None;
    }
    let k = if st == 2 { 4 } else { 1 };
    let vx = if get(me, 14, 1) == 1 { -(ew - 1) } else { ew - 1 } * k;
    let vy = if get(me, 25, 1) == 1 { -(ns - 1) } else { ns - 1 } * k;
    let spd = ((vx * vx + vy * vy) as f64).sqrt();
    let mut trk = (vx as f64).atan2(vy as f64).to_degrees();
    if trk < 0.0 {
        trk += 360.0;
    }
    if trk >= 360.0 {
        trk -= 360.0;
    }
    let rate = (vr - 1) * 64 * if get(me, 37, 1) == 1 { -1 } else { 1 };
    Some((trk, spd, rate))
}

// ---------------------------------------------------------------------------------------------
// actual
// ---------------------------------------------------------------------------------------------

/// numeric value of a decoded field whatever integer type (or bool) the library gives it
pub trait Nu {
    fn nu(&self) -> u64;
}
macro_rules! impl_nu {
    ($($t:ty),*) => { $(impl Nu for $t { fn nu(&self) -> u64 { *self as u64 } })* };
}
impl_nu!(u8, u16, u32, u64, usize, i8, i16, i32, i64, bool);

fn icao_u(i: &ICAO) -> u64 {
    ((i.0[0] as u64) << 16) | ((i.0[1] as u64) << 8) | i.0[2] as u64
}

/// value of `key: ` inside a `{:?}` rendering (first occurrence), up to the next `,` or ` }`
pub fn debug_field(dbg: &str, key: &str) -> Option<String> {
    let pat = format!("{key}: ");
    let i = dbg.find(&pat)? + pat.len();
    let rest = &dbg[i..];
    let end = rest.find(|c| c == ',' || c == '}').unwrap_or(rest.len());
    Some(rest[..end].trim().to_string())
}

/// Enum values are read through their Debug text (variant name, optional numeric payload): a
/// variant that is removed, added or given a payload in the library changes what is decoded, not
/// whether this harness compiles.
pub fn vname<T: std::fmt::Debug>(x: &T) -> (String, Option<u64>) {
    let d = format!("{x:?}");
    let name: String = d.chars().take_while(|c| c.is_alphanumeric() || *c == '_').collect();
    let payload = d[name.len()..].trim_start_matches('(').trim_end_matches(')').trim().parse::<u64>().ok();
    (name, payload)
}

pub fn by_name<T: std::fmt::Debug>(x: &T, table: &[(&str, u64)]) -> u64 {
    let (n, _) = vname(x);
    table.iter().find(|(k, _)| *k == n).map(|(_, v)| *v).unwrap_or(9999)
}

fn cap_u(c: &Capability) -> Val {
    let (n, payload) = vname(c);
    Val::U(match n.as_str() {
        "AG_UNCERTAIN" => 0,
        // the variant itself says 1..=3 and carries the value; both must agree with the bits
        "Reserved" => match payload {
            Some(v) if (1..=3).contains(&v) => v,
            Some(v) => 1000 + v,
            None => 9998,
        },
        "AG_GROUND" => 4,
        "AG_AIRBORNE" => 5,
        "AG_UNCERTAIN2" => 6,
        "AG_UNCERTAIN3" => 7,
        _ => 9999,
    })
}

fn fs_u(x: &FlightStatus) -> u64 {
    by_name(x, &[("NoAlertNoSPIAirborne", 0), ("NoAlertNoSPIOnGround", 1), ("AlertNoSPIAirborne", 2), ("AlertNoSPIOnGround", 3), ("AlertSPIAirborneGround", 4), ("NoAlertSPIAirborneGround", 5), ("Reserved", 6), ("NotAssigned", 7)])
}

fn dr_u(x: &DownlinkRequest) -> u64 {
    let (n, payload) = vname(x);
    match n.as_str() {
        "None" => 0,
        "RequestSendCommB" => 1,
        "CommBBroadcastMsg1" => 4,
        "CommBBroadcastMsg2" => 5,
        "Unknown" => match payload {
            Some(v) if matches!(v, 0 | 1 | 4 | 5) => 1000 + v,
            Some(v) => v,
            None => 9998,
        },
        _ => 9999,
    }
}

fn um(f: &mut Fields, x: &UtilityMessage) {
    u(f, "iis", x.iis as u64);
    u(f, "ids", by_name(&x.ids, &[("NoInformation", 0), ("CommB", 1), ("CommC", 2), ("CommD", 3)]));
}

fn sign_u(x: &Sign) -> u64 {
    by_name(x, &[("Positive", 0), ("Negative", 1)])
}

fn cpr_u(x: &CPRFormat) -> u64 {
    by_name(x, &[("Even", 0), ("Odd", 1)])
}

pub fn actual(frame: &Frame) -> Fields {
    let mut f = Fields::new();
    u(&mut f, "crc", frame.crc as u64);
    match &frame.df {
        DF::ADSB(a) => {
            s(&mut f, "df", "ADSB");
            f.insert("ca".into(), cap_u(&a.capability));
            u(&mut f, "aa", icao_u(&a.icao));
            u(&mut f, "trailer", icao_u(&a.pi));
            me_actual(&a.me, &mut f);
        }
        DF::AllCallReply { capability, icao, p_icao, .. } => {
            s(&mut f, "df", "AllCallReply");
            f.insert("ca".into(), cap_u(capability));
            u(&mut f, "aa", icao_u(icao));
            u(&mut f, "trailer", icao_u(p_icao));
        }
        DF::ShortAirAirSurveillance { vs, cc, sl, ri, altitude, parity, .. } => {
            s(&mut f, "df", "ShortAirAirSurveillance");
            u(&mut f, "vs", *vs as u64);
            u(&mut f, "cc", *cc as u64);
            u(&mut f, "sl", *sl as u64);
            u(&mut f, "ri", *ri as u64);
            u(&mut f, "alt13", altitude.0 as u64);
            u(&mut f, "trailer", icao_u(parity));
        }
        DF::SurveillanceAltitudeReply { fs, dr, um: m, ac, ap, .. } => {
            s(&mut f, "df", "SurveillanceAltitudeReply");
            u(&mut f, "fs", fs_u(fs));
            u(&mut f, "dr", dr_u(dr));
            um(&mut f, m);
            u(&mut f, "alt13", ac.0 as u64);
            u(&mut f, "trailer", icao_u(ap));
        }
        DF::SurveillanceIdentityReply { fs, dr, um: m, id, ap, .. } => {
            s(&mut f, "df", "SurveillanceIdentityReply");
            u(&mut f, "fs", fs_u(fs));
            u(&mut f, "dr", dr_u(dr));
            um(&mut f, m);
            u(&mut f, "id13", id.0 as u64);
            u(&mut f, "trailer", icao_u(ap));
        }
        DF::LongAirAir { vs, sl, ri, altitude, mv, parity, .. } => {
            s(&mut f, "df", "LongAirAir");
            u(&mut f, "vs", *vs as u64);
            u(&mut f, "sl", *sl as u64);
            u(&mut f, "ri", *ri as u64);
            u(&mut f, "alt13", altitude.0 as u64);
            if mv.len() == 7 {
                u(&mut f, "mv", mv.iter().fold(0u64, |a, b| (a << 8) | *b as u64));
            } else {
                s(&mut f, "mv", &format!("len {}", mv.len()));
            }
            u(&mut f, "trailer", icao_u(parity));
        }
        DF::TisB { cf, pi, .. } => {
            s(&mut f, "df", "TisB");
            let dbg = format!("{cf:?}");
            let t = debug_field(&dbg, "t").unwrap_or_default();
            let tv = match t.as_str() {
                "ADSB_ES_NT" => 0,
                "ADSB_ES_NT_ALT" => 1,
                "TISB_FINE" => 2,
                "TISB_COARSE" => 3,
                "TISB_MANAGE" => 4,
                "TISB_ADSB_RELAY" => 5,
                "TISB_ADSB" => 6,
                "Reserved" => 7,
                _ => 999,
            };
            u(&mut f, "cf", tv);
            u(&mut f, "aa", icao_u(&cf.aa));
            u(&mut f, "trailer", icao_u(pi));
            me_actual(&cf.me, &mut f);
        }
        DF::ExtendedQuitterMilitaryApplication { af, .. } => {
            s(&mut f, "df", "ExtendedQuitterMilitaryApplication");
            u(&mut f, "af", *af as u64);
        }
        DF::CommBAltitudeReply { flight_status, dr, um: m, alt, bds, .. } => {
            s(&mut f, "df", "CommBAltitudeReply");
            u(&mut f, "fs", fs_u(flight_status));
            u(&mut f, "dr", dr_u(dr));
            um(&mut f, m);
            u(&mut f, "alt13", alt.0 as u64);
            bds_actual(bds, &mut f);
        }
        DF::CommBIdentityReply { fs, dr, um: m, id, bds, parity, .. } => {
            s(&mut f, "df", "CommBIdentityReply");
            u(&mut f, "fs", fs_u(fs));
            u(&mut f, "dr", dr_u(dr));
            um(&mut f, m);
            u(&mut f, "id13", *id as u64);
            bds_actual(bds, &mut f);
            u(&mut f, "trailer", icao_u(parity));
        }
        DF::ModeSExtendedSquitter { df, capability, icao, type_code, adsb_data, parity, .. } => {
            s(&mut f, "df", "ModeSExtendedSquitter");
            u(&mut f, "dfcode", *df as u64);
            f.insert("ca".into(), cap_u(capability));
            u(&mut f, "aa", icao_u(icao));
            u(&mut f, "x.type_code", *type_code as u64);
            u(&mut f, "x.adsb_data", *adsb_data);
            u(&mut f, "trailer", icao_u(parity));
        }
        #[allow(unreachable_patterns)]
        _ => s(&mut f, "df", "<new variant>"),
    }
    f
}

fn bds_actual(b: &BDS, f: &mut Fields) {
    match b {
        BDS::Empty(_) => s(f, "bds.kind", "Empty"),
        BDS::DataLinkCapability(d) => {
            s(f, "bds.kind", "DataLinkCapability");
            u(f, "bds.continuation", d.continuation_flag as u64);
            u(f, "bds.overlay", d.overlay_command_capability as u64);
            u(f, "bds.acas", d.acas as u64);
            u(f, "bds.subnet_version", d.mode_s_subnetwork_version_number as u64);
            u(f, "bds.enhanced_protocol", d.transponder_enhanced_protocol_indicator as u64);
            u(f, "bds.specific_services", d.mode_s_specific_services_capability as u64);
            u(f, "bds.uplink_elm", d.uplink_elm_average_throughput_capability as u64);
            u(f, "bds.downlink_elm", d.downlink_elm as u64);
            u(f, "bds.ident_capability", d.aircraft_identification_capability as u64);
            u(f, "bds.squitter_capability", d.squitter_capability_subfield as u64);
            u(f, "bds.sic", d.surveillance_identifier_code as u64);
            u(f, "bds.gicb", d.common_usage_gicb_capability_report as u64);
            // the reserved bits are read through the Debug text: how the library names or splits
            // them is its own business; if they are not presented as one field, they are not compared
            match debug_field(&format!("{d:?}"), "reserved_acas").and_then(|x| x.parse::<u64>().ok()) {
                Some(v) => u(f, "bds.acas_reserved", v),
                None => {
                    f.insert("bds.acas_reserved".into(), Val::Any);
                }
            }
            u(f, "bds.bit_array", d.bit_array as u64);
        }
        BDS::AircraftIdentification(cn) => {
            s(f, "bds.kind", "AircraftIdentification");
            s(f, "bds.cn", cn);
        }
        BDS::Unknown((code, _)) => {
            s(f, "bds.kind", "Unknown");
            u(f, "bds.code", *code as u64);
        }
        #[allow(unreachable_patterns)]
        _ => s(f, "bds.kind", "<new variant>"),
    }
}

fn alt_fields(a: &Altitude, f: &mut Fields) {
    u(f, "me.tc", a.tc as u64);
    u(f, "me.ss", by_name(&a.ss, &[("NoCondition", 0), ("PermanentAlert", 1), ("TemporaryAlert", 2), ("SPICondition", 3)]));
    u(f, "me.saf", a.saf_or_imf as u64);
    f.insert("me.alt".into(), a.alt.map(|x| Val::U(x as u64)).unwrap_or(Val::Absent));
    u(f, "me.t", a.t as u64);
    u(f, "me.f", cpr_u(&a.odd_flag));
    u(f, "me.lat", a.lat_cpr as u64);
    u(f, "me.lon", a.lon_cpr as u64);
}

fn om_actual(om: &OperationalMode, f: &mut Fields) {
    let d = format!("{om:?}");
    let b = |k: &str| -> u64 {
        match debug_field(&d, k).as_deref() {
            Some("true") => 1,
            Some("false") => 0,
            Some(x) => x.parse().unwrap_or(999),
            None => 999,
        }
    };
    u(f, "me.om.ra", b("tcas_ra_active"));
    u(f, "me.om.ident", b("ident_switch_active"));
    u(f, "me.om.atc", b("reserved_recv_atc_service"));
    u(f, "me.om.saf", b("single_antenna_flag"));
    u(f, "me.om.sda", b("system_design_assurance"));
}

fn version_u(v: &ADSBVersion) -> u64 {
    by_name(v, &[("DOC9871AppendixA", 0), ("DOC9871AppendixB", 1), ("DOC9871AppendixC", 2)])
}

pub fn me_actual(me: &ME, f: &mut Fields) {
    match me {
        ME::NoPosition(_) => s(f, "me.kind", "NoPosition"),
        ME::Reserved0(_) => s(f, "me.kind", "Reserved0"),
        ME::SurfaceSystemStatus(_) => s(f, "me.kind", "SurfaceSystemStatus"),
        ME::Reserved1(_) => s(f, "me.kind", "Reserved1"),
        ME::AircraftOperationalCoordination(_) => s(f, "me.kind", "AircraftOperationalCoordination"),
        ME::AircraftIdentification(id) => {
            s(f, "me.kind", "AircraftIdentification");
            u(f, "me.tc", by_name(&id.tc, &[("D", 1), ("C", 2), ("B", 3), ("A", 4)]));
            u(f, "me.ca", id.ca as u64);
            s(f, "me.cn", &id.cn);
        }
        ME::SurfacePosition(p) => {
            s(f, "me.kind", "SurfacePosition");
            u(f, "me.mov", p.mov as u64);
            u(f, "me.s", by_name(&p.s, &[("Invalid", 0), ("Valid", 1)]));
            u(f, "me.trk", p.trk as u64);
            u(f, "me.t", p.t as u64);
            u(f, "me.f", cpr_u(&p.f));
            u(f, "me.lat", p.lat_cpr as u64);
            u(f, "me.lon", p.lon_cpr as u64);
        }
        ME::AirbornePositionBaroAltitude(a) => {
            s(f, "me.kind", "AirbornePositionBaroAltitude");
            alt_fields(a, f);
        }
        ME::AirbornePositionGNSSAltitude(a) => {
            s(f, "me.kind", "AirbornePositionGNSSAltitude");
            alt_fields(a, f);
        }
        ME::AirborneVelocity(v) => {
            s(f, "me.kind", "AirborneVelocity");
            u(f, "me.st", v.st as u64);
            u(f, "me.nacv", v.nac_v as u64);
            match &v.sub_type {
                AirborneVelocitySubType::Reserved0(x) => {
                    s(f, "me.sub", "Reserved0");
                    u(f, "me.sub22", *x as u64);
                }
                AirborneVelocitySubType::Reserved1(x) => {
                    s(f, "me.sub", "Reserved1");
                    u(f, "me.sub22", *x as u64);
                }
                AirborneVelocitySubType::GroundSpeedDecoding(g) => {
                    s(f, "me.sub", "GroundSpeedDecoding");
                    u(f, "me.ewsign", sign_u(&g.ew_sign));
                    u(f, "me.ew", g.ew_vel as u64);
                    u(f, "me.nssign", sign_u(&g.ns_sign));
                    u(f, "me.ns", g.ns_vel as u64);
                }
                AirborneVelocitySubType::AirspeedDecoding(a) => {
                    s(f, "me.sub", "AirspeedDecoding");
                    u(f, "me.hdgstatus", a.status_heading as u64);
                    u(f, "me.hdg", a.mag_heading as u64);
                    u(f, "me.astype", a.airspeed_type as u64);
                    u(f, "me.as", a.airspeed as u64);
                }
                #[allow(unreachable_patterns)]
                _ => s(f, "me.sub", "<new variant>"),
            }
            u(f, "me.vrsrc", by_name(&v.vrate_src, &[("BarometricPressureAltitude", 0), ("GeometricAltitude", 1)]));
            u(f, "me.vrsign", sign_u(&v.vrate_sign));
            u(f, "me.vr", v.vrate_value as u64);
            u(f, "me.gnsssign", sign_u(&v.gnss_sign));
            u(f, "me.gnssdiff", v.gnss_baro_diff as u64);
            match v.calculate() {
                None => {
                    f.insert("me.calc".into(), Val::Absent);
                }
                Some((h, sp, vr)) => {
                    f.insert("me.calc".into(), Val::S("some".into()));
                    f.insert("me.calc.track".into(), Val::F(h as f64, 0.0));
                    f.insert("me.calc.speed".into(), Val::F(sp, 0.0));
                    f.insert("me.calc.vrate".into(), Val::I(vr as i64));
                }
            }
        }
        ME::AircraftStatus(a) => {
            s(f, "me.kind", "AircraftStatus");
            s(f, "me.st", &vname(&a.sub_type).0);
            u(f, "me.emergency", by_name(&a.emergency_state, &[("None", 0), ("General", 1), ("Lifeguard", 2), ("MinimumFuel", 3), ("NoCommunication", 4), ("UnlawfulInterference", 5), ("DownedAircraft", 6), ("Reserved2", 7)]));
            u(f, "me.squawk", a.squawk as u64);
        }
        ME::TargetStateAndStatusInformation(t) => {
            s(f, "me.kind", "TargetStateAndStatusInformation");
            u(f, "me.subtype", t.subtype as u64);
            u(f, "me.isfms", t.is_fms as u64);
            u(f, "me.altitude", t.altitude as u64);
            f.insert("me.qnh".into(), Val::F(t.qnh as f64, 0.0));
            u(f, "me.ishdg", t.is_heading as u64);
            f.insert("me.hdg".into(), Val::F(t.heading as f64, 0.0));
            u(f, "me.nacp", t.nacp as u64);
            u(f, "me.nicbaro", t.nicbaro as u64);
            u(f, "me.sil", t.sil as u64);
            u(f, "me.modevalid", t.mode_validity as u64);
            u(f, "me.autopilot", t.autopilot as u64);
            u(f, "me.vnav", t.vnac as u64);
            u(f, "me.althold", t.alt_hold as u64);
            u(f, "me.imf", t.imf as u64);
            u(f, "me.approach", t.approach as u64);
            u(f, "me.tcas", t.tcas as u64);
            u(f, "me.lnav", t.lnav as u64);
        }
        ME::AircraftOperationStatus(os) => {
            s(f, "me.kind", "AircraftOperationStatus");
            match os {
                OperationStatus::Airborne(a) => {
                    s(f, "me.os", "Airborne");
                    u(f, "me.cc.acas", a.capability_class.acas as u64);
                    u(f, "me.cc.cdti", a.capability_class.cdti as u64);
                    u(f, "me.cc.arv", a.capability_class.arv as u64);
                    u(f, "me.cc.ts", a.capability_class.ts as u64);
                    u(f, "me.cc.tc", a.capability_class.tc as u64);
                    om_actual(&a.operational_mode, f);
                    u(f, "me.version", version_u(&a.version_number));
                    u(f, "me.nica", a.nic_supplement_a as u64);
                    u(f, "me.nacp", a.navigational_accuracy_category as u64);
                    u(f, "me.gva", a.geometric_vertical_accuracy as u64);
                    u(f, "me.sil", a.source_integrity_level as u64);
                    u(f, "me.bit53", a.barometric_altitude_integrity as u64);
                    u(f, "me.hrd", a.horizontal_reference_direction as u64);
                    u(f, "me.silsupp", a.sil_supplement as u64);
                }
                OperationStatus::Surface(a) => {
                    s(f, "me.os", "Surface");
                    u(f, "me.cc.poa", a.capability_class.poe as u64);
                    u(f, "me.cc.es1090", a.capability_class.es1090 as u64);
                    u(f, "me.cc.b2low", a.capability_class.b2_low as u64);
                    u(f, "me.cc.uatin", a.capability_class.uat_in as u64);
                    u(f, "me.cc.nacv", a.capability_class.nac_v as u64);
                    u(f, "me.cc.nicc", a.capability_class.nic_supplement_c as u64);
                    u(f, "me.lw", a.lw_codes as u64);
                    om_actual(&a.operational_mode, f);
                    u(f, "me.antoff", a.gps_antenna_offset as u64);
                    u(f, "me.version", version_u(&a.version_number));
                    u(f, "me.nica", a.nic_supplement_a as u64);
                    u(f, "me.nacp", a.navigational_accuracy_category as u64);
                    u(f, "me.sil", a.source_integrity_level as u64);
                    u(f, "me.bit53", a.barometric_altitude_integrity as u64);
                    u(f, "me.hrd", a.horizontal_reference_direction as u64);
                    u(f, "me.silsupp", a.sil_supplement as u64);
                }
                OperationStatus::Reserved(..) => s(f, "me.os", "Reserved"),
                #[allow(unreachable_patterns)]
                _ => s(f, "me.os", "<new variant>"),
            }
        }
        #[allow(unreachable_patterns)]
        _ => s(f, "me.kind", "<new variant>"),
    }
}

/// Compare `expected` against `actual` for the keys selected by `want`; returns
/// (field, expected, actual) triples that disagree.  A key present on only one side disagrees
/// (unless the expected value is `Any`).
pub fn diff(exp: &Fields, act: &Fields, want: &dyn Fn(&str) -> bool) -> Vec<(String, String, String)> {
    let mut out = vec![];
    for (k, e) in exp {
        if !want(k) {
            continue;
        }
        match act.get(k) {
            Some(Val::Any) => {} // not observable in this build of the library
            Some(a) => {
                let ok = if k.ends_with(".cn") {
                    match (e, a) {
                        (Val::S(e), Val::S(a)) => callsign_ok(e, a),
                        _ => false,
                    }
                } else {
                    e.accepts(a)
                };
                if !ok {
                    out.push((k.clone(), e.show(), a.show()));
                }
            }
            None => {
                if *e != Val::Any {
                    out.push((k.clone(), e.show(), "<field missing>".into()));
                }
            }
        }
    }
    for (k, a) in act {
        if want(k) && !exp.contains_key(k) {
            out.push((k.clone(), "<field not expected>".into(), a.show()));
        }
    }
    out
}
