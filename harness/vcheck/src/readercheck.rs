//! C19: decoding from a reader is independent of fragmentation and transient Interrupted errors;
//! decoding is a pure function of the bytes.
use crate::bits;
use crate::core::*;
use crate::framecheck::last_panic;
use crate::framegen::*;
use crate::refdec;
use adsb_deku::Frame;
use proptest::prelude::*;
use proptest::test_runner::{Config, RngSeed, TestCaseError, TestError, TestRunner};
use serde_json::{json, Value};
use std::io::{self, Read, Seek, SeekFrom};
use std::panic::{catch_unwind, AssertUnwindSafe};

#[derive(Clone, Copy, Debug, PartialEq, Eq, Hash)]
pub enum Step {
    /// deliver at most n bytes (n >= 1)
    Read(usize),
    /// return Err(Interrupted), consuming nothing
    Interrupt,
}

pub struct Scripted<'a> {
    data: &'a [u8],
    pos: usize,
    script: &'a [Step],
    /// index of the next read call
    pub reads: usize,
    /// trace of calls: 'r' read ok, 'i' interrupted, 's' seek
    pub trace: String,
    /// default fragment size once the script is exhausted
    pub default_max: usize,
}

impl<'a> Scripted<'a> {
    pub fn new(data: &'a [u8], script: &'a [Step], default_max: usize) -> Self {
        Self { data, pos: 0, script, reads: 0, trace: String::new(), default_max }
    }
    /// reader positioned at `start` of a longer stream (e.g. the second frame of a capture)
    pub fn at(data: &'a [u8], start: usize, script: &'a [Step], default_max: usize) -> Self {
        Self { data, pos: start, script, reads: 0, trace: String::new(), default_max }
    }
}

/// decode `frame` from a reader that holds `prefix ++ frame` and is positioned after the prefix
pub fn eval_offset(prefix: &[u8], b: &[u8], script: &[Step], default_max: usize) -> Vec<(String, String)> {
    let class = refdec::class_of(b);
    let want = match dec_bytes(b) {
        Ok(w) => w,
        Err(p) => return vec![(format!("C19/panic/{class}"), format!("from_bytes panicked: {p}"))],
    };
    let mut stream = prefix.to_vec();
    stream.extend_from_slice(b);
    crate::total::guard_case(json!({"kind": "offset", "hex": bits::hex(b), "prefix": bits::hex(prefix), "script": script_json(script), "default_max": default_max}));
    let got = catch_unwind(AssertUnwindSafe(|| {
        let mut s = Scripted::at(&stream, prefix.len(), script, default_max);
        let r = Frame::from_reader(&mut s).map_err(|e| format!("{e:?}"));
        render(&r)
    }));
    crate::total::guard_done();
    match got {
        Err(_) => vec![(format!("C19/panic/{class}"), format!("from_reader panicked: {}", last_panic()))],
        Ok(g) if g != want => vec![(format!("C19/reader_offset_differs/{class}"), format!("slice decode gives `{}`, decode from a reader positioned {} bytes into a stream gives `{}`", short(&want), prefix.len(), short(&g)))],
        _ => vec![],
    }
}

impl Read for Scripted<'_> {
    fn read(&mut self, buf: &mut [u8]) -> io::Result<usize> {
        let step = self.script.get(self.reads).copied().unwrap_or(Step::Read(self.default_max));
        self.reads += 1;
        match step {
            Step::Interrupt => {
                self.trace.push('i');
                Err(io::Error::new(io::ErrorKind::Interrupted, "transient"))
            }
            Step::Read(n) => {
                self.trace.push('r');
                let avail = self.data.len().saturating_sub(self.pos);
                let k = n.max(1).min(buf.len()).min(avail);
                buf[..k].copy_from_slice(&self.data[self.pos..self.pos + k]);
                self.pos += k;
                Ok(k)
            }
        }
    }
}

impl Seek for Scripted<'_> {
    fn seek(&mut self, p: SeekFrom) -> io::Result<u64> {
        self.trace.push('s');
        let np: i64 = match p {
            SeekFrom::Start(x) => x as i64,
            SeekFrom::End(x) => self.data.len() as i64 + x,
            SeekFrom::Current(x) => self.pos as i64 + x,
        };
        if np < 0 {
            return Err(io::Error::new(io::ErrorKind::InvalidInput, "seek before start"));
        }
        self.pos = np as usize;
        Ok(self.pos as u64)
    }
}

fn render(r: &Result<Frame, String>) -> String {
    match r {
        Ok(f) => format!("Ok crc={:06x} {:?}", f.crc, f),
        Err(_) => "Err".to_string(),
    }
}

fn dec_bytes(b: &[u8]) -> Result<String, String> {
    catch_unwind(AssertUnwindSafe(|| Frame::from_bytes(b).map_err(|e| format!("{e:?}")))).map(|r| render(&r)).map_err(|_| last_panic())
}

/// returns (rendered result, call trace)
fn dec_reader(b: &[u8], script: &[Step], default_max: usize) -> Result<(String, String), String> {
    // (a reader decode that does not come back is saved by the watchdog in this form)
    crate::total::guard_case(json!({"kind": "schedule", "hex": bits::hex(b), "script": script_json(script), "default_max": default_max}));
    let r = dec_reader_inner(b, script, default_max);
    crate::total::guard_done();
    r
}

fn dec_reader_inner(b: &[u8], script: &[Step], default_max: usize) -> Result<(String, String), String> {
    catch_unwind(AssertUnwindSafe(|| {
        let mut s = Scripted::new(b, script, default_max);
        let r = Frame::from_reader(&mut s).map_err(|e| format!("{e:?}"));
        (render(&r), s.trace.clone())
    }))
    .map_err(|_| last_panic())
}

/// the differential oracle on one (bytes, schedule)
pub fn eval_schedule(b: &[u8], script: &[Step], default_max: usize) -> Vec<(String, String)> {
    let class = refdec::class_of(b);
    let want = match dec_bytes(b) {
        Ok(w) => w,
        Err(p) => return vec![(format!("C19/panic/{class}"), format!("from_bytes panicked: {p}"))],
    };
    match dec_reader(b, script, default_max) {
        Err(p) => vec![(format!("C19/panic/{class}"), format!("from_reader panicked: {p}"))],
        Ok((got, trace)) => {
            if got != want {
                vec![(format!("C19/reader_differs/{class}"), format!("slice decode gives `{}`, reader decode (calls {trace}) gives `{}`", short(&want), short(&got)))]
            } else {
                vec![]
            }
        }
    }
}

fn short(s: &str) -> String {
    if s.len() > 90 {
        format!("{}...", &s[..90])
    } else {
        s.to_string()
    }
}

fn script_json(s: &[Step]) -> Value {
    json!(s.iter().map(|x| match x { Step::Read(n) => json!(n), Step::Interrupt => json!("I") }).collect::<Vec<_>>())
}

fn script_from(v: &Value) -> Vec<Step> {
    v.as_array().map(|a| a.iter().map(|x| if x.is_string() { Step::Interrupt } else { Step::Read(x.as_u64().unwrap_or(1) as usize) }).collect()).unwrap_or_default()
}

pub fn replay_c19(v: &Value) -> Vec<Failure> {
    if v.get("kind").and_then(|k| k.as_str()) == Some("order") {
        let a = v.get("hex").and_then(|h| h.as_str()).and_then(bits::unhex).unwrap_or_default();
        let before: Vec<Vec<u8>> = v.get("before").and_then(|x| x.as_array()).map(|x| x.iter().filter_map(|h| h.as_str().and_then(bits::unhex)).collect()).unwrap_or_default();
        return eval_order(&a, &before).into_iter().map(|(sig, msg)| Failure { sig, msg, replay: v.clone() }).collect();
    }
    if v.get("kind").and_then(|k| k.as_str()) == Some("reader_nostd") {
        let Some(b) = v.get("hex").and_then(|h| h.as_str()).and_then(bits::unhex) else { return vec![] };
        let Ok(want) = dec_bytes(&b) else { return vec![] };
        let max = v["max"].as_u64().unwrap_or(1);
        let ints: Vec<String> = v["interrupts"].as_array().map(|a| a.iter().filter_map(|x| x.as_u64()).map(|x| x.to_string()).collect()).unwrap_or_default();
        let mut worker = crate::configs::Worker::spawn();
        let a = worker.ask(&[format!("RD {max} {} {}", if ints.is_empty() { "-".to_string() } else { ints.join(",") }, bits::hex(&b))]).pop().unwrap_or_default();
        let got = if a == "Err" || a.is_empty() {
            "Err".to_string()
        } else {
            let mut l = a.lines();
            let crc = l.next().unwrap_or("").trim_start_matches("Ok ").to_string();
            let dbg = l.next().unwrap_or("").trim_start_matches("DEBUG ").to_string();
            format!("Ok {crc} {dbg}")
        };
        return if got != want { vec![Failure { sig: format!("C19/no_std/reader_differs/{}", refdec::class_of(&b)), msg: format!("slice decode gives `{}`, the alloc-only build's reader decode gives `{}`", short(&want), short(&got)), replay: v.clone() }] } else { vec![] };
    }
    if v.get("kind").and_then(|k| k.as_str()) == Some("stream") {
        let frames: Vec<Vec<u8>> = v.get("frames").and_then(|x| x.as_array()).map(|a| a.iter().filter_map(|h| h.as_str().and_then(bits::unhex)).collect()).unwrap_or_default();
        let dm = v.get("default_max").and_then(|x| x.as_u64()).unwrap_or(64) as usize;
        return eval_stream(&frames, dm).into_iter().map(|(sig, msg)| Failure { sig, msg, replay: v.clone() }).collect();
    }
    let Some(b) = bits::unhex(v.get("hex").and_then(|h| h.as_str()).unwrap_or("")) else { return vec![] };
    let sigs = if v.get("kind").and_then(|k| k.as_str()) == Some("offset") {
        let prefix = v.get("prefix").and_then(|h| h.as_str()).and_then(bits::unhex).unwrap_or_default();
        let script = script_from(v.get("script").unwrap_or(&Value::Null));
        let dm = v.get("default_max").and_then(|x| x.as_u64()).unwrap_or(64) as usize;
        eval_offset(&prefix, &b, &script, dm)
    } else if v.get("kind").and_then(|k| k.as_str()) == Some("purity") {
        let others: Vec<Vec<u8>> = v.get("between").and_then(|x| x.as_array()).map(|a| a.iter().filter_map(|h| h.as_str().and_then(bits::unhex)).collect()).unwrap_or_default();
        eval_purity(&b, &others)
    } else {
        let script = script_from(v.get("script").unwrap_or(&Value::Null));
        let dm = v.get("default_max").and_then(|x| x.as_u64()).unwrap_or(64) as usize;
        eval_schedule(&b, &script, dm)
    };
    sigs.into_iter().map(|(sig, msg)| Failure { sig, msg, replay: v.clone() }).collect()
}

fn eval_purity(b: &[u8], between: &[Vec<u8>]) -> Vec<(String, String)> {
    let class = refdec::class_of(b);
    let first = dec_bytes(b);
    for o in between {
        let _ = dec_bytes(o);
        let _ = dec_reader(o, &[Step::Read(1), Step::Interrupt], 1);
    }
    let second = dec_bytes(b);
    let third = dec_reader(b, &[], 64).map(|x| x.0);
    // ... and right after a sibling that differs from it in one early bit only (same tail, same
    // length): a decoder that recognises "the same message again" by part of it must not
    if first == second && b.len() >= 7 {
        for flip in [6usize, 9, 17, 30] {
            let mut sib = b.to_vec();
            bits::flip(&mut sib, flip);
            let _ = dec_bytes(&sib);
            let again = dec_bytes(b);
            if again != first {
                return vec![(format!("C19/purity/{class}"), format!("decoded right after {} (the same bytes except bit {flip}) the result differs from the one obtained before", bits::hex(&sib)))];
            }
        }
    }
    if first != second || first != third {
        vec![(format!("C19/purity/{class}"), format!("decoding the same bytes again (after {} other decodes) gives a different result", between.len()))]
    } else {
        vec![]
    }
}

/// decode `frames` in a fresh process, in this order; returns the Debug text of each (a process
/// that gives no answer within 30 s is tried once more before that is taken for the answer)
fn fresh_process_decode(frames: &[&[u8]]) -> Option<Vec<String>> {
    let first = fresh_process_decode_once(frames)?;
    if first.iter().any(|t| t.starts_with("<no answer")) {
        return fresh_process_decode_once(frames);
    }
    Some(first)
}

fn fresh_process_decode_once(frames: &[&[u8]]) -> Option<Vec<String>> {
    use std::io::Write;
    let exe = std::env::current_exe().ok()?;
    let mut child = std::process::Command::new(exe).arg("helper").stdin(std::process::Stdio::piped()).stdout(std::process::Stdio::piped()).stderr(std::process::Stdio::null()).spawn().ok()?;
    let req = json!({"cmd": "debugdump", "frames": frames.iter().map(|b| bits::hex(b)).collect::<Vec<_>>()});
    child.stdin.take()?.write_all(req.to_string().as_bytes()).ok()?;
    // (a child that does not come back is killed after 30 s; the caller decides what that means)
    let t0 = std::time::Instant::now();
    loop {
        match child.try_wait() {
            Ok(Some(_)) => break,
            Ok(None) if t0.elapsed().as_secs() >= 30 => {
                let _ = child.kill();
                let _ = child.wait();
                return Some(vec!["<no answer within 30 s>".to_string(); frames.len()]);
            }
            Ok(None) => std::thread::sleep(std::time::Duration::from_millis(5)),
            Err(_) => return None,
        }
    }
    let out = child.wait_with_output().ok()?;
    let v: Value = serde_json::from_slice(&out.stdout).ok()?;
    Some(v["frames"].as_array()?.iter().map(|x| x.as_str().unwrap_or("").to_string()).collect())
}

/// Decoding is a pure function of the bytes also across the life of a process: `a` decoded as the
/// very first frame of a fresh process, and decoded after `before` in another fresh process,
/// gives the same result (anything the decoder remembers between calls would show here).
pub fn eval_order(a: &[u8], before: &[Vec<u8>]) -> Vec<(String, String)> {
    let Some(alone) = fresh_process_decode(&[a]) else { return vec![] };
    let mut seq: Vec<&[u8]> = before.iter().map(|b| b.as_slice()).collect();
    seq.push(a);
    let Some(after) = fresh_process_decode(&seq) else { return vec![] };
    if alone.len() == 1 && after.len() == seq.len() && after[seq.len() - 1] != alone[0] {
        vec![(format!("C19/order/{}", refdec::class_of(a).split('/').next().unwrap_or("")), format!("decoded first in a fresh process the frame gives `{}`; decoded after {} other frame(s) in a fresh process it gives `{}`", short(&alone[0]), before.len(), short(&after[seq.len() - 1])))]
    } else {
        vec![]
    }
}

/// A capture: complete frames one after the other in one reader, decoded by calling
/// `from_reader` repeatedly.  Every frame must come out as it does alone (formats whose frames
/// the decoder reads completely: DF19 / DF20 leave their tail to a drain of the reader and end a
/// capture here).
pub fn eval_stream(frames: &[Vec<u8>], frag: usize) -> Vec<(String, String)> {
    let mut stream = vec![];
    for f in frames {
        stream.extend_from_slice(f);
    }
    let script: [Step; 0] = [];
    crate::total::guard_case(json!({"kind": "stream", "frames": frames.iter().map(|x| bits::hex(x)).collect::<Vec<_>>(), "default_max": frag}));
    let res = catch_unwind(AssertUnwindSafe(|| {
        let mut rd = Scripted::at(&stream, 0, &script, frag);
        let mut out = vec![];
        for _ in frames {
            out.push(render(&Frame::from_reader(&mut rd).map_err(|e| format!("{e:?}"))));
        }
        out
    }));
    crate::total::guard_done();
    let got = match res {
        Ok(g) => g,
        Err(_) => return vec![("C19/panic/stream".into(), format!("from_reader panicked on a stream of {} frames: {}", frames.len(), last_panic()))],
    };
    for (i, f) in frames.iter().enumerate() {
        let want = dec_bytes(f).unwrap_or_else(|p| format!("panic {p}"));
        if got[i] == want && want == "Err" {
            // where a reader stands after a frame was refused is not specified: what follows
            // in this capture cannot be judged
            break;
        }
        if got[i] != want {
            return vec![(format!("C19/stream_differs/{}", refdec::class_of(f).split('/').next().unwrap_or("")), format!("frame {i} of a stream of {} complete frames ({} bytes per read): alone it decodes to `{}`, in the stream to `{}` (the frame before it: {})", frames.len(), frag, short(&want), short(&got[i]), if i > 0 { bits::hex(&frames[i - 1]) } else { "none".into() }))];
        }
    }
    vec![]
}

/// frames of every accepted class: each has its own read/seek call pattern
fn frame_pool(ctx: &Ctx, per_class: usize) -> Vec<Vec<u8>> {
    let mut rng = ctx.rng(1900, 0);
    let mut pool = vec![];
    for _ in 0..per_class {
        for df in SUPPORTED_DF {
            if df == 17 || df == 18 {
                for tc in 0..32u8 {
                    let mut b = gen_frame_df(&mut rng, df);
                    let me = gen_me(&mut rng, tc);
                    b[4..11].copy_from_slice(&me);
                    pool.push(b);
                }
                // reserved capability, op-status subtypes 2..7
                let mut b = gen_frame_df(&mut rng, df);
                bits::set(&mut b, 6, 3, 1 + rng.below(3));
                pool.push(b);
                let mut b = gen_frame_df(&mut rng, df);
                b[4] = 0xf8 | (2 + rng.below(6)) as u8;
                pool.push(b);
            } else if df == 20 || df == 21 {
                for code in [0x00u8, 0x10, 0x20, 0x30, 0xff] {
                    let mut b = gen_frame_df(&mut rng, df);
                    b[4] = code;
                    // unknown downlink request half of the time
                    if rng.chance(1, 2) {
                        bits::set(&mut b, 9, 5, 7);
                    }
                    pool.push(b);
                }
            } else {
                pool.push(gen_frame_df(&mut rng, df));
                let mut b = gen_frame_df(&mut rng, df);
                if matches!(df, 4 | 5) {
                    bits::set(&mut b, 9, 5, 9);
                }
                if matches!(df, 11 | 24..=31) {
                    bits::set(&mut b, 6, 3, 2);
                }
                pool.push(b);
            }
        }
        // every supported format with bytes after the frame (a newline, another frame, a capture
        // file) and cut short at the lengths where the parser's requests end
        for df in SUPPORTED_DF {
            for extra in [1usize, 2, 7, 14, 19] {
                let mut b = gen_frame_df(&mut rng, df);
                if (df == 20 || df == 21) && extra % 2 == 1 {
                    b[4] = if extra == 1 { 0x10 } else { 0x20 };
                }
                let t = rng.bytes(extra);
                b.extend_from_slice(&t);
                pool.push(b);
            }
            for cut in [1usize, 4, 6, 7, 10, 11, 13] {
                let mut b = gen_frame_df(&mut rng, df);
                if cut < b.len() {
                    b.truncate(cut);
                    pool.push(b);
                }
            }
        }
        // truncated and over-long variants, unsupported formats
        for _ in 0..12 {
            let f = gen_frame(&mut rng);
            let (b, _) = with_len_mode(&mut rng, f);
            pool.push(b);
        }
    }
    pool
}

pub fn run_c19(ctx: &mut Ctx) -> ! {
    ctx.level = "fault_enumeration";
    let ctx = &*ctx;
    let per_class = ctx.tier.pick(1usize, 20);
    let pool = frame_pool(ctx, per_class);
    let pool = &pool;
    let n_random = ctx.tier.pick(6_000u32, 2_000_000);
    let mut st = parallel(|w, st| {
        // ---- fault enumeration on the recorded call trace
        for (fi, b) in pool.iter().enumerate() {
            if fi % WORKERS != w {
                continue;
            }
            let class = refdec::class_of(b);
            st.class(&format!("frame:{}", class.split('/').take(2).collect::<Vec<_>>().join("/")));
            for frag in [64usize, 1, 2] {
                // benign schedule with this fragment size: number of read calls
                let Ok((_, trace)) = dec_reader(b, &[], frag) else { continue };
                let nreads = trace.matches('r').count();
                let base: Vec<Step> = vec![Step::Read(frag); nreads + 8];
                let mut try_script = |st: &mut Stats, script: Vec<Step>, nontrivial: bool| {
                    st.eval();
                    if nontrivial {
                        st.nontrivial_enum += 1;
                    }
                    for (sig, msg) in eval_schedule(b, &script, frag) {
                        if st.failures.contains_key(&sig) {
                            st.failures.get_mut(&sig).unwrap().1 += 1;
                            continue;
                        }
                        // shrink: drop injections / steps while it still fails
                        let mut cur = script.clone();
                        let mut i = 0;
                        while i < cur.len() {
                            let mut t = cur.clone();
                            t.remove(i);
                            if eval_schedule(b, &t, frag).iter().any(|(s, _)| *s == sig) {
                                cur = t;
                            } else {
                                i += 1;
                            }
                        }
                        let msg2 = eval_schedule(b, &cur, frag).into_iter().find(|(s, _)| *s == sig).map(|x| x.1).unwrap_or(msg);
                        st.fail(Failure { sig, msg: format!("{msg2} (frame {}, schedule {})", bits::hex(b), script_json(&cur)), replay: json!({"kind":"schedule","hex":bits::hex(b),"script":script_json(&cur),"default_max":frag}) });
                    }
                };
                try_script(st, base.clone(), frag != 64);
                // one Interrupted (and runs of 2, 3) before each read call
                for k in 0..=nreads {
                    for run in 1..=3 {
                        let mut s = base.clone();
                        for _ in 0..run {
                            s.insert(k, Step::Interrupt);
                        }
                        try_script(st, s, true);
                    }
                }
                // "however many": long runs of Interrupted before the first, a middle and the last
                // read call, and five before every single call
                for k in [0, nreads / 2, nreads] {
                    for run in [70usize, 300] {
                        let mut s = base.clone();
                        for _ in 0..run {
                            s.insert(k.min(s.len()), Step::Interrupt);
                        }
                        try_script(st, s, true);
                    }
                }
                {
                    let mut s = vec![];
                    for _ in 0..nreads + 8 {
                        for _ in 0..5 {
                            s.push(Step::Interrupt);
                        }
                        s.push(Step::Read(frag));
                    }
                    try_script(st, s, true);
                }
                // all pairs of injection points
                for k1 in 0..=nreads {
                    for k2 in k1..=nreads {
                        let mut s = base.clone();
                        s.insert(k2, Step::Interrupt);
                        s.insert(k1, Step::Interrupt);
                        try_script(st, s, true);
                    }
                }
                if st.samples.len() < 4 {
                    st.samples.push(json!({"frame": bits::hex(b), "class": class, "fragment": frag, "benign_call_trace": trace, "injections": "one/two/three Interrupted before each read call, all pairs"}));
                }
            }
            // reader positioned inside a longer stream (earlier frames before this one)
            for (pi, plen) in [7usize, 14, 1, 21].iter().enumerate() {
                let prefix: Vec<u8> = pool[(fi + 3 + pi) % pool.len()].iter().cycle().take(*plen).copied().collect();
                for (script, frag) in [(vec![], 64usize), (vec![Step::Read(1), Step::Interrupt, Step::Read(2)], 1)] {
                    st.eval();
                    st.nontrivial_enum += 1;
                    for (sig, msg) in eval_offset(&prefix, b, &script, frag) {
                        st.fail(Failure { sig, msg: format!("{msg} (frame {}, prefix {})", bits::hex(b), bits::hex(&prefix)), replay: json!({"kind":"offset","hex":bits::hex(b),"prefix":bits::hex(&prefix),"script":script_json(&script),"default_max":frag}) });
                    }
                }
            }
            // a capture of several frames read through one reader (this frame among three others)
            if fi % 2 == 0 {
                let usable = |b: &Vec<u8>| !b.is_empty() && bits::df_supported(b[0] >> 3) && b.len() == bits::required_len(b[0] >> 3) && !matches!(b[0] >> 3, 19 | 20);
                let mut cap: Vec<Vec<u8>> = (0..4).map(|d| pool[(fi + d * 5) % pool.len()].clone()).filter(usable).collect();
                if usable(b) {
                    cap.insert(cap.len().min(1), b.clone());
                }
                if cap.len() >= 2 {
                    for frag in [64usize, 3] {
                        st.eval();
                        st.nontrivial_enum += 1;
                        st.class("capture of several frames");
                        for (sig, msg) in eval_stream(&cap, frag) {
                            st.fail(Failure { sig, msg, replay: json!({"kind":"stream","frames":cap.iter().map(|x| bits::hex(x)).collect::<Vec<_>>(),"default_max":frag}) });
                        }
                    }
                }
            }
            // purity
            st.eval();
            let between: Vec<Vec<u8>> = (1..4).map(|d| pool[(fi + d * 7) % pool.len()].clone()).collect();
            for (sig, msg) in eval_purity(b, &between) {
                st.fail(Failure { sig, msg: format!("{msg} (frame {})", bits::hex(b)), replay: json!({"kind":"purity","hex":bits::hex(b),"between":between.iter().map(|x| bits::hex(x)).collect::<Vec<_>>()}) });
            }
        }
        // ---- proptest-generated schedules (shrinking by the library)
        let step = prop_oneof![3 => (1usize..5).prop_map(Step::Read), 1 => Just(Step::Interrupt)];
        let strat = (0..pool.len(), proptest::collection::vec(step, 0..48), prop_oneof![Just(1usize), Just(2), Just(3), Just(64)]);
        let mut runner = TestRunner::new(Config { cases: n_random / WORKERS as u32, failure_persistence: None, rng_seed: RngSeed::Fixed(runner_seed(ctx.seed, 0x1900, w as u64)), max_shrink_iters: 4000, ..Config::default() });
        let counted = std::cell::RefCell::new((0u64, Vec::<u64>::new(), true));
        let res = runner.run(&strat, |(fi, script, dm)| {
            let b = &pool[fi];
            {
                let mut c = counted.borrow_mut();
                if c.2 {
                    c.0 += 1;
                    if script.iter().any(|s| *s == Step::Interrupt) {
                        c.1.push(hash_of(&(fi, &script, dm)));
                    }
                }
            }
            let sigs = eval_schedule(b, &script, dm);
            if let Some((sig, _)) = sigs.first() {
                counted.borrow_mut().2 = false; // shrinking re-runs the closure: stop counting
                return Err(TestCaseError::fail(sig.clone()));
            }
            Ok(())
        });
        let c = counted.into_inner();
        st.evaluations += c.0;
        for h in c.1 {
            st.nontrivial_hash(h);
        }
        st.class_n("random schedule", c.0);
        if let Err(TestError::Fail(reason, (fi, script, dm))) = res {
            let b = &pool[fi];
            let sig = reason.message().to_string();
            let msg = eval_schedule(b, &script, dm).into_iter().next().map(|x| x.1).unwrap_or_default();
            st.fail(Failure { sig, msg: format!("{msg} (frame {}, schedule {})", bits::hex(b), script_json(&script)), replay: json!({"kind":"schedule","hex":bits::hex(b),"script":script_json(&script),"default_max":dm}) });
        }
    });
    // ---- order independence across processes: frames with a Gillham-coded altitude / an identity
    // code (the fields with table-like decoders) after each of their one- and two-bit neighbours,
    // and pool frames after other pool frames
    {
        let mut rng = ctx.rng(1977, 0);
        let mut jobs: Vec<(Vec<u8>, Vec<Vec<u8>>)> = vec![];
        let nbase = ctx.tier.pick(3usize, 40);
        for k in 0..nbase {
            for (df, at, len) in [(4u8, 20usize, 13usize), (5, 20, 13), (17, 32 + 9, 12), (21, 20, 13), (17, 32 + 12, 13)] {
                let mut a = gen_frame_df(&mut rng, df);
                if df == 17 {
                    let me = gen_me(&mut rng, if len == 12 { 11 } else { 28 });
                    a[4..11].copy_from_slice(&me);
                }
                // a legal Gillham code (Q = 0, M = 0): take one from a small list, vary by k
                let code13 = [0x0980u64, 0x0182, 0x1028, 0x0a24, 0x0c62, 0x1580][(k + df as usize) % 6];
                let code = if len == 13 { code13 } else { ((code13 & 0x1f80) >> 1) | (code13 & 0x3f) };
                bits::set(&mut a, at, len, code);
                let mut neigh = vec![];
                for i in 0..len {
                    for j in i..len {
                        let mut b = a.clone();
                        bits::flip(&mut b, at + i);
                        if j != i {
                            bits::flip(&mut b, at + j);
                        }
                        neigh.push(b);
                    }
                }
                // ten neighbours per process keep the number of processes small
                for chunk in neigh.chunks(if ctx.tier == Tier::Quick { 24 } else { 6 }) {
                    jobs.push((a.clone(), chunk.to_vec()));
                }
            }
        }
        for i in 0..ctx.tier.pick(40usize, 600) {
            let a = pool[(i * 13 + 5) % pool.len()].clone();
            let before: Vec<Vec<u8>> = (1..6).map(|d| pool[(i * 7 + d * 11) % pool.len()].clone()).collect();
            jobs.push((a, before));
        }
        let results: Vec<Vec<(String, String, Value)>> = {
            let jobs = &jobs;
            let mut out: Vec<Vec<(String, String, Value)>> = vec![];
            std::thread::scope(|sc| {
                let hs: Vec<_> = (0..WORKERS).map(|w| sc.spawn(move || {
                    let mut v = vec![];
                    for (ji, (a, before)) in jobs.iter().enumerate() {
                        if ji % WORKERS != w {
                            continue;
                        }
                        for (sig, msg) in eval_order(a, before) {
                            v.push((sig, format!("{msg} (frame {})", bits::hex(a)), json!({"kind":"order","hex":bits::hex(a),"before":before.iter().map(|x| bits::hex(x)).collect::<Vec<_>>()})));
                        }
                    }
                    v
                })).collect();
                for h in hs {
                    out.push(h.join().unwrap_or_default());
                }
            });
            out
        };
        st.evaluations += jobs.len() as u64;
        st.nontrivial_enum += jobs.len() as u64;
        st.class_n("order independence across fresh processes", jobs.len() as u64);
        for (sig, msg, replay) in results.into_iter().flatten() {
            if !st.failures.contains_key(&sig) {
                st.fail(Failure { sig, msg, replay });
            }
        }
    }
    // ---- the same in the alloc-only (no_std) build of the decoder, whose I/O layer is another
    // crate: every frame of the pool through the worker's scripted reader with fragment sizes
    // 1, 2, 3, 5, 13, 14 and 64 and `Interrupted` at each of the first 14 read calls (and at pairs)
    if std::env::var("VWORKER_BIN").is_ok() {
        let mut worker = crate::configs::Worker::spawn();
        let mut n = 0u64;
        for (fi, b) in pool.iter().enumerate() {
            let want = match dec_bytes(b) {
                Ok(w) => w,
                Err(_) => continue,
            };
            let mut scheds: Vec<(usize, Vec<usize>)> = vec![];
            for max in [1usize, 2, 3, 5, 13, 14, 64] {
                scheds.push((max, vec![]));
            }
            let max = [1usize, 2, 3, 5, 13, 14, 64][fi % 7];
            for k in 0..14usize {
                scheds.push((max, vec![k]));
                scheds.push((max, vec![k, k + 1 + (fi + k) % 3]));
            }
            let reqs: Vec<String> = scheds.iter().map(|(m, ints)| format!("RD {m} {} {}", if ints.is_empty() { "-".to_string() } else { ints.iter().map(|x| x.to_string()).collect::<Vec<_>>().join(",") }, bits::hex(b))).collect();
            let answers = worker.ask(&reqs);
            for ((m, ints), a) in scheds.iter().zip(answers.iter()) {
                n += 1;
                // the worker's answer: "Err" or "Ok crc=..\nDEBUG <frame>\nDISPLAY .."
                let got = if a == "Err" || a.is_empty() {
                    "Err".to_string()
                } else {
                    let mut l = a.lines();
                    let crc = l.next().unwrap_or("").trim_start_matches("Ok ").to_string();
                    let dbg = l.next().unwrap_or("").trim_start_matches("DEBUG ").to_string();
                    format!("Ok {crc} {dbg}")
                };
                if got != want {
                    let class = refdec::class_of(b);
                    let sig = format!("C19/no_std/reader_differs/{class}");
                    if !st.failures.contains_key(&sig) {
                        st.fail(Failure {
                            sig,
                            msg: format!("slice decode gives `{}`; the alloc-only build reading fragments of {m} byte(s) with Interrupted at read call(s) {ints:?} gives `{}` (frame {})", short(&want), short(&got), bits::hex(b)),
                            replay: json!({"kind": "reader_nostd", "hex": bits::hex(b), "max": m, "interrupts": ints}),
                        });
                    }
                }
            }
        }
        st.evaluations += n;
        st.nontrivial_enum += n;
        st.class_n("alloc-only build: fragmented / interrupted reader", n);
    }
    st.notes.insert("frames_in_pool".into(), json!(pool.len()));
    st.exhaustive.push("for every frame of the pool and fragment sizes {64,1,2}: 1-3 consecutive Interrupted before every read call, and all pairs of injection points".into());
    finish(
        ctx,
        st,
        "pool of frames of every accepted class (every DF, every type code, reserved capability / unknown DR / each BDS dispatch, truncated and over-long buffers); for each, the benign read/seek call trace is recorded and transient Interrupted errors are injected exhaustively (single, runs of 2-3, all pairs) under fragment sizes 64/1/2, plus proptest-generated schedules of short reads and interruptions; oracle: from_reader == from_bytes (Ok/Err, Debug text, checksum) and repeatability; non-trivial = schedule with an injection or fragmenting; distinct by construction / hash",
        &["the scripted reader returns Err(Interrupted) without consuming bytes, as std::io readers do", "hard I/O errors are outside the property"],
        vec![],
    )
}
