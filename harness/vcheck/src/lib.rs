//! Library part of the verification harness: reference models, generators and per-property oracles.
//! Used by the `vcheck` binary and by the cargo-fuzz targets under harness/fuzz.
pub mod accept;
pub mod bits;
pub mod configs;
pub mod core;
pub mod cprcheck;
pub mod decoder;
pub mod framecheck;
pub mod framegen;
pub mod helper;
pub mod readercheck;
pub mod refcpr;
pub mod refdec;
pub mod regress;
pub mod render;
pub mod total;
pub mod tracker;
#[path = "../../shared/transcript.rs"]
pub mod transcript;
