//! Shared runner infrastructure: tiers, seeds, statistics, findings protocol, evidence.
use proptest::prelude::RngCore;
use proptest::test_runner::{RngAlgorithm, TestRng};
use serde_json::{json, Value};
use std::collections::{BTreeMap, HashSet};
use std::hash::{Hash, Hasher};
use std::path::PathBuf;
use std::time::Instant;

#[derive(Clone, Copy, PartialEq, Eq, Debug)]
pub enum Tier {
    Quick,
    Thorough,
}

impl Tier {
    pub fn name(self) -> &'static str {
        match self {
            Tier::Quick => "quick",
            Tier::Thorough => "thorough",
        }
    }
    /// pick by tier
    pub fn pick<T>(self, q: T, t: T) -> T {
        match self {
            Tier::Quick => q,
            Tier::Thorough => t,
        }
    }
}

pub const WORKERS: usize = 16;
const DISTINCT_CAP: usize = 3_000_000;
const SAMPLE_CAP: usize = 8;

pub fn verif_dir() -> PathBuf {
    std::env::var("VERIF_DIR").map(PathBuf::from).unwrap_or_else(|_| PathBuf::from("/verif"))
}

/// A failed comparison, not yet triaged against the known-findings file.
#[derive(Clone, Debug)]
pub struct Failure {
    /// `<property>/<sub-check>/<field>/<class>` — what known_findings keys on
    pub sig: String,
    pub msg: String,
    /// complete case, replayable by `./check <ID> --replay`
    pub replay: Value,
}

#[derive(Default)]
pub struct Stats {
    pub evaluations: u64,
    /// hashes of distinct non-trivial cases (capped, then conservative)
    pub nontrivial: HashSet<u64>,
    /// non-trivial cases that are distinct by construction (enumeration index)
    pub nontrivial_enum: u64,
    pub classes: BTreeMap<String, u64>,
    pub samples: Vec<Value>,
    pub dontcare: u64,
    pub excluded: u64,
    /// first failure per signature + count
    pub failures: BTreeMap<String, (Failure, u64)>,
    pub exhaustive: Vec<String>,
    pub notes: BTreeMap<String, Value>,
}

pub fn hash_of<T: Hash + ?Sized>(t: &T) -> u64 {
    let mut h = std::collections::hash_map::DefaultHasher::new();
    t.hash(&mut h);
    h.finish()
}

impl Stats {
    pub fn eval(&mut self) {
        self.evaluations += 1;
    }
    pub fn class(&mut self, c: &str) {
        *self.classes.entry(c.to_string()).or_insert(0) += 1;
    }
    pub fn class_n(&mut self, c: &str, n: u64) {
        *self.classes.entry(c.to_string()).or_insert(0) += n;
    }
    pub fn nontrivial_hash(&mut self, h: u64) {
        if self.nontrivial.len() < DISTINCT_CAP {
            self.nontrivial.insert(h);
        }
    }
    pub fn nontrivial<T: Hash + ?Sized>(&mut self, t: &T) {
        self.nontrivial_hash(hash_of(t));
    }
    pub fn sample(&mut self, v: Value) {
        if self.samples.len() < SAMPLE_CAP {
            self.samples.push(v);
        }
    }
    pub fn sample_every(&mut self, every: u64, v: impl FnOnce() -> Value) {
        if self.samples.len() < SAMPLE_CAP && self.evaluations % every == 1 % every {
            self.samples.push(v());
        }
    }
    pub fn fail(&mut self, f: Failure) {
        match self.failures.get_mut(&f.sig) {
            Some(e) => e.1 += 1,
            None => {
                self.failures.insert(f.sig.clone(), (f, 1));
            }
        }
    }
    pub fn fails(&mut self, fs: Vec<Failure>) {
        for f in fs {
            self.fail(f);
        }
    }
    pub fn merge(&mut self, o: Stats) {
        self.evaluations += o.evaluations;
        for h in o.nontrivial {
            if self.nontrivial.len() < DISTINCT_CAP * 4 {
                self.nontrivial.insert(h);
            }
        }
        self.nontrivial_enum += o.nontrivial_enum;
        for (k, v) in o.classes {
            *self.classes.entry(k).or_insert(0) += v;
        }
        for s in o.samples {
            if self.samples.len() < SAMPLE_CAP * 2 {
                self.samples.push(s);
            }
        }
        self.dontcare += o.dontcare;
        self.excluded += o.excluded;
        for (k, (f, n)) in o.failures {
            match self.failures.get_mut(&k) {
                Some(e) => e.1 += n,
                None => {
                    self.failures.insert(k, (f, n));
                }
            }
        }
        for e in o.exhaustive {
            if !self.exhaustive.contains(&e) {
                self.exhaustive.push(e);
            }
        }
        for (k, v) in o.notes {
            self.notes.insert(k, v);
        }
    }
}

#[derive(Clone, Debug)]
pub struct Known {
    pub status: String,
    pub property: String,
    pub signature: String,
    pub what: String,
}

pub fn load_known(property: &str) -> Vec<Known> {
    let p = verif_dir().join("known_findings.jsonl");
    let mut out = vec![];
    if let Ok(s) = std::fs::read_to_string(p) {
        for l in s.lines() {
            let l = l.trim();
            if l.is_empty() || l.starts_with('#') {
                continue;
            }
            if let Ok(v) = serde_json::from_str::<Value>(l) {
                let g = |k: &str| v.get(k).and_then(|x| x.as_str()).unwrap_or("").to_string();
                if g("property") == property {
                    out.push(Known {
                        status: g("status"),
                        property: g("property"),
                        signature: g("signature"),
                        what: g("what"),
                    });
                }
            }
        }
    }
    out
}

pub struct Ctx {
    pub property: &'static str,
    pub tier: Tier,
    pub seed: u64,
    pub known: Vec<Known>,
    pub start: Instant,
    pub level: &'static str,
}

impl Ctx {
    pub fn new(property: &'static str, tier: Tier) -> Ctx {
        let seed = std::env::var("VERIF_SEED").ok().and_then(|s| s.parse::<u64>().ok()).unwrap_or(1);
        Ctx { property, tier, seed, known: load_known(property), start: Instant::now(), level: "exploration" }
    }
    /// deterministic library RNG for (seed, stream, worker)
    pub fn rng(&self, stream: u64, worker: u64) -> TestRng {
        make_rng(self.seed, stream, worker)
    }
    pub fn is_known(&self, sig: &str) -> bool {
        self.known.iter().any(|k| k.status == "known" && sig_match(&k.signature, sig))
    }
}

/// seed of a proptest runner for (VERIF_SEED, stream, worker): hashed, so that small seeds do
/// not merely permute the workers
pub fn runner_seed(seed: u64, stream: u64, worker: u64) -> u64 {
    hash_of(&(seed, stream, worker, 0x7665_7269_66u64))
}

pub fn make_rng(seed: u64, stream: u64, worker: u64) -> TestRng {
    let mut b = [0u8; 32];
    b[0..8].copy_from_slice(&seed.to_le_bytes());
    b[8..16].copy_from_slice(&stream.to_le_bytes());
    b[16..24].copy_from_slice(&worker.to_le_bytes());
    b[24..32].copy_from_slice(&0x7665_7269_665f_7662u64.to_le_bytes());
    TestRng::from_seed(RngAlgorithm::ChaCha, &b)
}

pub fn sig_match(pat: &str, sig: &str) -> bool {
    if let Some(p) = pat.strip_suffix('*') {
        sig.starts_with(p)
    } else {
        pat == sig
    }
}

/// Run `f(worker_index, &mut Stats)` on WORKERS threads and merge.
pub fn parallel<F>(f: F) -> Stats
where
    F: Fn(usize, &mut Stats) + Sync,
{
    let mut total = Stats::default();
    let results: Vec<Stats> = std::thread::scope(|s| {
        let hs: Vec<_> = (0..WORKERS)
            .map(|w| {
                let f = &f;
                s.spawn(move || {
                    let mut st = Stats::default();
                    f(w, &mut st);
                    st
                })
            })
            .collect();
        hs.into_iter()
            .map(|h| match h.join() {
                Ok(s) => s,
                Err(e) => {
                    let msg = panic_msg(&e);
                    eprintln!("INCONCLUSIVE: harness worker panicked: {msg}");
                    std::process::exit(2);
                }
            })
            .collect()
    });
    for r in results {
        total.merge(r);
    }
    total
}

pub fn panic_msg(e: &Box<dyn std::any::Any + Send>) -> String {
    if let Some(s) = e.downcast_ref::<&str>() {
        s.to_string()
    } else if let Some(s) = e.downcast_ref::<String>() {
        s.clone()
    } else {
        "<non-string panic>".to_string()
    }
}

/// random helpers on the library RNG
pub trait RngExt {
    fn below(&mut self, n: u64) -> u64;
    fn bits(&mut self, n: u32) -> u64;
    fn chance(&mut self, num: u64, den: u64) -> bool;
    fn f64_unit(&mut self) -> f64;
    fn range_f64(&mut self, lo: f64, hi: f64) -> f64;
    fn pick<'a, T>(&mut self, xs: &'a [T]) -> &'a T;
    fn bytes(&mut self, n: usize) -> Vec<u8>;
}
impl RngExt for TestRng {
    fn below(&mut self, n: u64) -> u64 {
        if n == 0 {
            return 0;
        }
        // multiply-shift, monotone in the raw draw
        ((self.next_u64() as u128 * n as u128) >> 64) as u64
    }
    fn bits(&mut self, n: u32) -> u64 {
        if n == 0 {
            0
        } else if n >= 64 {
            self.next_u64()
        } else {
            self.next_u64() >> (64 - n)
        }
    }
    fn chance(&mut self, num: u64, den: u64) -> bool {
        self.below(den) < num
    }
    fn f64_unit(&mut self) -> f64 {
        (self.next_u64() >> 11) as f64 / (1u64 << 53) as f64
    }
    fn range_f64(&mut self, lo: f64, hi: f64) -> f64 {
        lo + (hi - lo) * self.f64_unit()
    }
    fn pick<'a, T>(&mut self, xs: &'a [T]) -> &'a T {
        &xs[self.below(xs.len() as u64) as usize]
    }
    fn bytes(&mut self, n: usize) -> Vec<u8> {
        let mut v = vec![0u8; n];
        self.fill_bytes(&mut v);
        v
    }
}

/// Final triage + evidence + exit code.  Never returns.
pub fn finish(ctx: &Ctx, mut st: Stats, rule: &str, assumptions: &[&str], vacuity: Vec<String>) -> ! {
    let (pre, npre) = crate::regress::take();
    st.evaluations += npre;
    st.notes.insert("saved_regression_cases_replayed".into(), json!(npre));
    for f in pre {
        st.fail(f);
    }
    let wall = ctx.start.elapsed().as_secs_f64();
    let mut violations = vec![];
    let mut known_hits: BTreeMap<String, (String, u64)> = BTreeMap::new();
    let failures = std::mem::take(&mut st.failures);
    for (sig, (f, n)) in failures {
        if let Some(k) = ctx.known.iter().find(|k| k.status == "known" && sig_match(&k.signature, &sig)) {
            let e = known_hits.entry(k.signature.clone()).or_insert((k.what.clone(), 0));
            e.1 += n;
        } else {
            violations.push((f, n));
        }
    }
    // known findings are always reported, whether or not this run hit them
    for k in ctx.known.iter().filter(|k| k.status == "known") {
        let hits = known_hits.get(&k.signature).map(|x| x.1).unwrap_or(0);
        println!("KNOWN-FINDING: property={} {} [signature={} hits_this_run={}]", ctx.property, k.what, k.signature, hits);
    }
    let mut replay_paths = vec![];
    for (f, n) in &violations {
        let dir = verif_dir().join("replays").join(ctx.property);
        let _ = std::fs::create_dir_all(&dir);
        let name: String = f.sig.chars().map(|c| if c.is_ascii_alphanumeric() || c == '-' || c == '.' { c } else { '_' }).collect();
        let path = dir.join(format!("{}-{:08x}.json", name, hash_of(&f.replay.to_string()) as u32));
        let mut body = f.replay.clone();
        if let Some(o) = body.as_object_mut() {
            o.insert("property".into(), json!(ctx.property));
            o.insert("signature".into(), json!(f.sig));
            o.insert("message".into(), json!(f.msg));
            o.insert("count_this_run".into(), json!(n));
        }
        let _ = std::fs::write(&path, serde_json::to_string_pretty(&body).unwrap());
        println!("VIOLATION property={} replay={}", ctx.property, path.display());
        println!("  signature={} count={} :: {}", f.sig, n, f.msg);
        replay_paths.push(path.display().to_string());
    }
    if !violations.is_empty() && std::env::var("VERIF_SECOND_BUILD").is_ok() {
        println!("  (reported by the second pass: library and harness built with debug assertions on; --replay tries both builds)");
    }
    let distinct = st.nontrivial.len() as u64 + st.nontrivial_enum;
    let ev = json!({
        "property_id": ctx.property,
        "tier": ctx.tier.name(),
        "seed": ctx.seed,
        "level": ctx.level,
        "coverage": {
            "evaluations": st.evaluations,
            "distinct_nontrivial": distinct,
            "rule": rule,
            "samples": st.samples,
            "exhaustive": !st.exhaustive.is_empty(),
            "exhaustive_subdomains": st.exhaustive,
            "class_histogram": st.classes,
            "dont_care_cases": st.dontcare,
            "excluded_cases": st.excluded,
            "known_finding_hits": known_hits.iter().map(|(k, v)| (k.clone(), json!(v.1))).collect::<BTreeMap<_, _>>(),
            "vacuity_guards_failed": vacuity,
            "notes": st.notes,
            "violation_replays": replay_paths,
        },
        "assumptions": assumptions,
        "wall_s": wall,
        "violations": violations.len(),
    });
    let evdir = verif_dir().join("evidence");
    let _ = std::fs::create_dir_all(&evdir);
    let evpath = evdir.join(format!("{}.json", ctx.property));
    let second = std::env::var("VERIF_SECOND_BUILD").is_ok();
    if second {
        // second pass of the same check, built with debug assertions on: the evidence of the first
        // pass stays, this pass is recorded inside it
        let mut base: serde_json::Value = std::fs::read_to_string(&evpath).ok().and_then(|t| serde_json::from_str(&t).ok()).unwrap_or_else(|| ev.clone());
        let summary = json!({
            "build": "opt-level 3, overflow checks on, debug assertions on",
            "debug_assertions_on": cfg!(debug_assertions),
            "tier": ctx.tier.name(),
            "evaluations": st.evaluations,
            "distinct_nontrivial": distinct,
            "class_histogram": st.classes,
            "exhaustive_subdomains": st.exhaustive,
            "violations": violations.len(),
            "violation_replays": replay_paths,
            "wall_s": wall,
        });
        if let Some(c) = base.get_mut("coverage").and_then(|c| c.as_object_mut()) {
            c.insert("debug_assertions_pass".into(), summary);
        }
        if let Some(o) = base.as_object_mut() {
            let w = o.get("wall_s").and_then(|w| w.as_f64()).unwrap_or(0.0);
            o.insert("wall_s".into(), json!(w + wall));
            let v = o.get("violations").and_then(|v| v.as_u64()).unwrap_or(0);
            o.insert("violations".into(), json!(v + violations.len() as u64));
        }
        let _ = std::fs::write(&evpath, serde_json::to_string_pretty(&base).unwrap() + "\n");
    } else {
        let _ = std::fs::write(&evpath, serde_json::to_string_pretty(&ev).unwrap() + "\n");
    }
    println!(
        "{} {}{}: evaluations={} distinct_nontrivial={} dontcare={} excluded={} violations={} wall={:.1}s",
        ctx.property,
        ctx.tier.name(),
        if second { " (second pass, debug assertions on)" } else { "" },
        st.evaluations,
        distinct,
        st.dontcare,
        st.excluded,
        violations.len(),
        wall
    );
    if !violations.is_empty() {
        std::process::exit(1);
    }
    if !vacuity.is_empty() {
        for v in &vacuity {
            eprintln!("INCONCLUSIVE: vacuity guard: {v}");
        }
        std::process::exit(2);
    }
    std::process::exit(0);
}

/// Replay-mode triage: strict (known findings are not suppressed, only labelled).
pub fn finish_replay(property: &str, fails: Vec<Failure>, path: &str) -> ! {
    if fails.is_empty() {
        println!("replay {path}: property {property} holds on this case");
        std::process::exit(0);
    }
    for f in &fails {
        println!("  signature={} :: {}", f.sig, f.msg);
    }
    println!("VIOLATION property={property} replay={path}");
    std::process::exit(1);
}
