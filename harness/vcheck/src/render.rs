//! C11: text rendering == fixed per-type template instantiated with the frame's decoded values.
//! `refrender` is an independent re-implementation of the templates pinned by the README and the
//! test-suite strings; it only reads the decoded frame's public fields (private ones via Debug).
use crate::bits;
use crate::core::*;
use crate::framecheck::*;
use crate::framegen::*;
use crate::refdec::Nu;
use crate::refdec::{self, debug_field};
use adsb_deku::adsb::*;
use adsb_deku::bds::BDS;
use adsb_deku::*;
use serde_json::{json, Value};
use std::fmt::Write;

fn cap_word(c: &Capability) -> &'static str {
    // (variant names through the Debug text: see refdec::vname)
    match refdec::vname(c).0.as_str() {
        "AG_UNCERTAIN" => "uncertain1",
        "Reserved" => "reserved",
        "AG_GROUND" => "ground",
        "AG_AIRBORNE" => "airborne",
        "AG_UNCERTAIN2" => "uncertain2",
        "AG_UNCERTAIN3" => "airborne?",
        _ => "<new variant>",
    }
}

fn fs_word(f: &FlightStatus) -> &'static str {
    match refdec::vname(f).0.as_str() {
        "NoAlertNoSPIAirborne" | "AlertSPIAirborneGround" | "NoAlertSPIAirborneGround" => "airborne?",
        "NoAlertNoSPIOnGround" => "ground?",
        "AlertNoSPIAirborne" => "airborne",
        "AlertNoSPIOnGround" => "ground",
        _ => "reserved",
    }
}

fn icao_s(i: &ICAO) -> String {
    format!("{:02x}{:02x}{:02x}", i.0[0], i.0[1], i.0[2])
}

fn bds_text(b: &BDS, br: &mut Vec<String>) -> String {
    match b {
        BDS::Empty(_) => {
            br.push("bds:empty".into());
            "Comm-B format: empty response\n".into()
        }
        BDS::AircraftIdentification(s) => {
            br.push("bds:ident".into());
            format!("Comm-B format: BDS2,0 Aircraft identification\n  Ident:         {s}\n")
        }
        BDS::DataLinkCapability(_) => {
            br.push("bds:dlc".into());
            "Comm-B format: BDS1,0 Datalink capabilities\n".into()
        }
        BDS::Unknown(_) => {
            br.push("bds:unknown".into());
            "Comm-B format: unknown format\n".into()
        }
        #[allow(unreachable_patterns)]
        _ => "<new BDS variant>".into(),
    }
}

fn sign_s(s: &Sign) -> &'static str {
    match refdec::vname(s).0.as_str() {
        "Positive" => "",
        "Negative" => "-",
        _ => "<new variant>",
    }
}

fn om_text(om: &OperationalMode, br: &mut Vec<String>) -> String {
    let d = format!("{om:?}");
    let flag = |k: &str| debug_field(&d, k).as_deref() == Some("true");
    let mut s = String::new();
    if flag("tcas_ra_active") {
        s += " TCAS";
        br.push("om:tcas".into());
    }
    if flag("ident_switch_active") {
        s += " IDENT_SWITCH_ACTIVE";
        br.push("om:ident".into());
    }
    if flag("reserved_recv_atc_service") {
        s += " ATC";
        br.push("om:atc".into());
    }
    if flag("single_antenna_flag") {
        s += " SAF";
        br.push("om:saf".into());
    }
    let sda = debug_field(&d, "system_design_assurance").and_then(|x| x.parse::<u8>().ok()).unwrap_or(0);
    if sda != 0 {
        let _ = write!(s, " SDA={sda}");
        br.push("om:sda".into());
    }
    s
}

fn version_n(v: &ADSBVersion) -> u8 {
    refdec::by_name(v, &[("DOC9871AppendixA", 0), ("DOC9871AppendixB", 1), ("DOC9871AppendixC", 2)]).min(99) as u8
}

fn altitude_block(a: &Altitude, br: &mut Vec<String>) -> String {
    let alt = match a.alt {
        Some(x) => {
            br.push("alt:some".into());
            format!("{x} ft barometric")
        }
        None => {
            br.push("alt:none".into());
            "None".to_string()
        }
    };
    let odd = match refdec::vname(&a.odd_flag).0.as_str() {
        "Even" => "even",
        "Odd" => "odd",
        _ => "<new variant>",
    };
    br.push(format!("cpr:{odd}"));
    format!("  Altitude:      {alt}\n  CPR type:      Airborne\n  CPR odd flag:  {odd}\n  CPR latitude:  ({})\n  CPR longitude: ({})\n", a.lat_cpr, a.lon_cpr)
}

fn me_text(me: &ME, icao: &ICAO, address_type: &str, capability: &Capability, is_transponder: bool, br: &mut Vec<String>) -> String {
    let tr = if is_transponder { " " } else { " (Non-Transponder) " };
    let icao = icao_s(icao);
    let cap = cap_word(capability);
    br.push(format!("cap:{cap}"));
    let mut f = String::new();
    let head = |f: &mut String, title: &str, with_cap: bool| {
        let _ = writeln!(f, " Extended Squitter{tr}{title}");
        let _ = writeln!(f, "  Address:       {icao} {address_type}");
        if with_cap {
            let _ = writeln!(f, "  Air/Ground:    {cap}");
        }
    };
    match me {
        ME::NoPosition(_) => {
            br.push("me:noposition".into());
            head(&mut f, "No position information", true)
        }
        ME::AircraftIdentification(Identification { tc, ca, cn, .. }) => {
            br.push("me:ident".into());
            head(&mut f, "Aircraft identification and category", true);
            let t = match refdec::vname(tc).0.as_str() {
                "D" => "D",
                "C" => "C",
                "B" => "B",
                "A" => "A",
                _ => "<new variant>",
            };
            br.push(format!("cat:{t}"));
            let _ = writeln!(f, "  Ident:         {cn}");
            let _ = writeln!(f, "  Category:      {t}{ca}");
        }
        ME::SurfacePosition(..) => {
            br.push("me:surface".into());
            head(&mut f, "Surface position", false)
        }
        ME::AirbornePositionBaroAltitude(a) => {
            br.push("me:airborne_baro".into());
            head(&mut f, "Airborne position (barometric altitude)", true);
            f += &altitude_block(a, br);
        }
        ME::AirborneVelocity(v) => match &v.sub_type {
            AirborneVelocitySubType::GroundSpeedDecoding(_) => {
                br.push("me:vel_gs".into());
                head(&mut f, "Airborne velocity over ground, subsonic", true);
                let _ = writeln!(f, "  GNSS delta:    {}{} ft", sign_s(&v.gnss_sign), v.gnss_baro_diff);
                br.push(format!("gnss_sign:{}", sign_s(&v.gnss_sign)));
                if let Some((heading, ground_speed, vertical_rate)) = v.calculate() {
                    br.push("calc:some".into());
                    let src = match refdec::vname(&v.vrate_src).0.as_str() {
                        "BarometricPressureAltitude" => "barometric",
                        "GeometricAltitude" => "GNSS",
                        _ => "<new variant>",
                    };
                    br.push(format!("vrsrc:{src}"));
                    let _ = writeln!(f, "  Heading:       {}", (heading as f64).ceil());
                    let _ = writeln!(f, "  Speed:         {} kt groundspeed", ground_speed.floor());
                    let _ = writeln!(f, "  Vertical rate: {vertical_rate} ft/min {src}");
                } else {
                    br.push("calc:none".into());
                    let _ = writeln!(f, "  Invalid packet");
                }
            }
            AirborneVelocitySubType::AirspeedDecoding(a) => {
                br.push("me:vel_as".into());
                head(&mut f, "Airspeed and heading, subsonic", true);
                let _ = writeln!(f, "  IAS:           {} kt", a.airspeed);
                if v.vrate_value.nu() > 0 {
                    br.push("baro_rate:shown".into());
                    let _ = writeln!(f, "  Baro rate:     {}{} ft/min", sign_s(&v.vrate_sign), (v.vrate_value as u32 - 1) * 64);
                    br.push(format!("vr_sign:{}", sign_s(&v.vrate_sign)));
                } else {
                    br.push("baro_rate:hidden".into());
                }
                let _ = writeln!(f, "  NACv:          {}", v.nac_v);
            }
            AirborneVelocitySubType::Reserved0(_) | AirborneVelocitySubType::Reserved1(_) => {
                br.push("me:vel_rsv".into());
                head(&mut f, "Airborne Velocity status (reserved)", false)
            }
            #[allow(unreachable_patterns)]
            _ => f += "<new velocity subtype>",
        },
        ME::AirbornePositionGNSSAltitude(a) => {
            br.push("me:airborne_gnss".into());
            let _ = writeln!(f, " Extended Squitter{tr}Airborne position (GNSS altitude)");
            let _ = writeln!(f, "  Address:      {icao} {address_type}");
            f += &altitude_block(a, br);
        }
        ME::Reserved0(_) | ME::Reserved1(_) => {
            br.push("me:reserved".into());
            head(&mut f, "Unknown", true)
        }
        ME::SurfaceSystemStatus(_) => {
            br.push("me:surface_system".into());
            head(&mut f, "Reserved for surface system status", true)
        }
        ME::AircraftStatus(AircraftStatus { emergency_state, squawk, .. }) => {
            br.push("me:status".into());
            head(&mut f, "Emergency/priority status", true);
            let e = match refdec::vname(emergency_state).0.as_str() {
                "None" => "no emergency",
                "General" => "general",
                "Lifeguard" => "lifeguard",
                "MinimumFuel" => "minimum fuel",
                "NoCommunication" => "no communication",
                "UnlawfulInterference" => "unflawful interference",
                "DownedAircraft" => "downed aircraft",
                "Reserved2" => "reserved2",
                _ => "<new variant>",
            };
            br.push(format!("emergency:{e}"));
            let _ = writeln!(f, "  Squawk:        {squawk:x}");
            let _ = writeln!(f, "  Emergency/priority:    {e}");
        }
        ME::TargetStateAndStatusInformation(t) => {
            br.push("me:tss".into());
            head(&mut f, "Target state and status (V2)", true);
            let _ = writeln!(f, "  Target State and Status:");
            let _ = writeln!(f, "    Target altitude:   MCP, {} ft", t.altitude);
            let _ = writeln!(f, "    Altimeter setting: {} millibars", t.qnh);
            if t.is_heading {
                br.push("tss:heading".into());
                let _ = writeln!(f, "    Target heading:    {}", t.heading);
            } else {
                br.push("tss:noheading".into());
            }
            if t.tcas {
                let _ = write!(f, "    ACAS:              operational ");
                br.push(format!("tss:acas:{}{}{}{}", t.autopilot as u8, t.vnac as u8, t.alt_hold as u8, t.approach as u8));
                if t.autopilot {
                    f += "autopilot ";
                }
                if t.vnac {
                    f += "vnav ";
                }
                if t.alt_hold {
                    f += "altitude-hold ";
                }
                if t.approach {
                    f += " approach";
                }
                f += "\n";
            } else {
                br.push("tss:noacas".into());
                let _ = writeln!(f, "    ACAS:              NOT operational");
            }
            let _ = writeln!(f, "    NACp:              {}", t.nacp);
            let _ = writeln!(f, "    NICbaro:           {}", t.nicbaro);
            let _ = writeln!(f, "    SIL:               {} (per sample)", t.sil);
            let _ = writeln!(f, "    QNH:               {} millibars", t.qnh);
        }
        ME::AircraftOperationalCoordination(_) => {
            br.push("me:coordination".into());
            head(&mut f, "Aircraft Operational Coordination", false)
        }
        ME::AircraftOperationStatus(OperationStatus::Airborne(a)) => {
            br.push("me:ops_air".into());
            head(&mut f, "Aircraft operational status (airborne)", true);
            f += "  Aircraft Operational Status:\n";
            let _ = writeln!(f, "   Version:            {}", version_n(&a.version_number));
            br.push(format!("version:{}", version_n(&a.version_number)));
            let cc = &a.capability_class;
            let mut c = String::new();
            if cc.acas.nu() == 1 {
                c += " ACAS";
            }
            if cc.cdti.nu() == 1 {
                c += " CDTI";
            }
            if cc.arv.nu() == 1 {
                c += " ARV";
            }
            if cc.ts.nu() == 1 {
                c += " TS";
            }
            if cc.tc.nu() == 1 {
                c += " TC";
            }
            br.push(format!("cc:{}{}{}{}{}", cc.acas.nu(), cc.cdti.nu(), cc.arv.nu(), cc.ts.nu(), (cc.tc.nu() == 1) as u8));
            let _ = writeln!(f, "   Capability classes:{c}");
            let _ = writeln!(f, "   Operational modes: {}", om_text(&a.operational_mode, br));
            let _ = writeln!(f, "   NIC-A:              {}", a.nic_supplement_a);
            let _ = writeln!(f, "   NACp:               {}", a.navigational_accuracy_category);
            let _ = writeln!(f, "   GVA:                {}", a.geometric_vertical_accuracy);
            let _ = writeln!(f, "   SIL:                {} (per hour)", a.source_integrity_level);
            let _ = writeln!(f, "   NICbaro:            {}", a.barometric_altitude_integrity);
            if a.horizontal_reference_direction.nu() == 1 {
                br.push("hrd:magnetic".into());
                f += "   Heading reference:  magnetic north\n";
            } else {
                br.push("hrd:true".into());
                f += "   Heading reference:  true north\n";
            }
        }
        ME::AircraftOperationStatus(OperationStatus::Surface(a)) => {
            br.push("me:ops_surf".into());
            head(&mut f, "Aircraft operational status (surface)", true);
            f += "  Aircraft Operational Status:\n ";
            let _ = writeln!(f, "  Version:            {}", version_n(&a.version_number));
            br.push(format!("version:{}", version_n(&a.version_number)));
            let _ = writeln!(f, "   NIC-A:              {}", a.nic_supplement_a);
            let _ = writeln!(f, "   NIC-C:              {}", a.capability_class.nic_supplement_c);
            let _ = writeln!(f, "   NACv:               {}", a.capability_class.nac_v);
            f += "   Capability classes:";
            if a.lw_codes.nu() != 0 {
                br.push("lw:shown".into());
                let _ = writeln!(f, " L/W={}", a.lw_codes);
            } else {
                br.push("lw:hidden".into());
                f += "\n";
            }
            let _ = writeln!(f, "   Operational modes: {}", om_text(&a.operational_mode, br));
            let _ = writeln!(f, "   NACp:               {}", a.navigational_accuracy_category);
            let _ = writeln!(f, "   SIL:                {} (per hour)", a.source_integrity_level);
            let _ = writeln!(f, "   NICbaro:            {}", a.barometric_altitude_integrity);
            if a.horizontal_reference_direction.nu() == 1 {
                br.push("hrd:magnetic".into());
                f += "   Heading reference:  magnetic north\n";
            } else {
                br.push("hrd:true".into());
                f += "   Heading reference:  true north\n";
            }
        }
        ME::AircraftOperationStatus(OperationStatus::Reserved(..)) => {
            br.push("me:ops_rsv".into());
            head(&mut f, "Aircraft operational status (reserved)", false)
        }
        #[allow(unreachable_patterns)]
        _ => f += "<new ME variant>",
    }
    f
}

/// (text, branch vector)
pub fn refrender(frame: &Frame) -> (String, Vec<String>) {
    let crc = frame.crc;
    let mut br = vec![];
    let mut f = String::new();
    match &frame.df {
        DF::ShortAirAirSurveillance { altitude, .. } => {
            br.push("df0".into());
            let _ = writeln!(f, " Short Air-Air Surveillance");
            let _ = writeln!(f, "  ICAO Address:  {crc:06x} (Mode S / ADS-B)");
            if altitude.0.nu() > 0 {
                br.push("alt>0".into());
                let _ = writeln!(f, "  Air/Ground:    airborne?");
                let _ = writeln!(f, "  Altitude:      {} ft barometric", altitude.0);
            } else {
                br.push("alt=0".into());
                let _ = writeln!(f, "  Air/Ground:    ground");
            }
        }
        DF::SurveillanceAltitudeReply { fs, ac, .. } => {
            br.push("df4".into());
            br.push(format!("fs:{}", fs_word(fs)));
            let _ = writeln!(f, " Surveillance, Altitude Reply");
            let _ = writeln!(f, "  ICAO Address:  {crc:06x} (Mode S / ADS-B)");
            let _ = writeln!(f, "  Air/Ground:    {}", fs_word(fs));
            if ac.0.nu() > 0 {
                br.push("alt>0".into());
                let _ = writeln!(f, "  Altitude:      {} ft barometric", ac.0);
            } else {
                br.push("alt=0".into());
            }
        }
        DF::SurveillanceIdentityReply { fs, id, .. } => {
            br.push("df5".into());
            br.push(format!("fs:{}", fs_word(fs)));
            let _ = writeln!(f, " Surveillance, Identity Reply");
            let _ = writeln!(f, "  ICAO Address:  {crc:06x} (Mode S / ADS-B)");
            let _ = writeln!(f, "  Air/Ground:    {}", fs_word(fs));
            let _ = writeln!(f, "  Identity:      {:04x}", id.0);
        }
        DF::AllCallReply { capability, icao, .. } => {
            br.push("df11".into());
            br.push(format!("cap:{}", cap_word(capability)));
            let _ = writeln!(f, " All Call Reply");
            let _ = writeln!(f, "  ICAO Address:  {} (Mode S / ADS-B)", icao_s(icao));
            let _ = writeln!(f, "  Air/Ground:    {}", cap_word(capability));
        }
        DF::LongAirAir { altitude, .. } => {
            br.push("df16".into());
            let _ = writeln!(f, " Long Air-Air ACAS");
            let _ = writeln!(f, "  ICAO Address:  {crc:06x} (Mode S / ADS-B)");
            if altitude.0.nu() > 0 {
                br.push("alt>0".into());
                let _ = writeln!(f, "  Air/Ground:    airborne?");
                let _ = writeln!(f, "  Baro altitude: {} ft", altitude.0);
            } else {
                br.push("alt=0".into());
                let _ = writeln!(f, "  Air/Ground:    ground");
            }
        }
        DF::ADSB(a) => {
            br.push("df17".into());
            f += &me_text(&a.me, &a.icao, "(Mode S / ADS-B)", &a.capability, true, &mut br);
        }
        DF::TisB { cf, .. } => {
            br.push("df18".into());
            let d = format!("{cf:?}");
            let t = debug_field(&d, "t").unwrap_or_default();
            let scheme = match t.as_str() {
                "ADSB_ES_NT" | "ADSB_ES_NT_ALT" => "(ADS-B)",
                "TISB_COARSE" | "TISB_ADSB_RELAY" | "TISB_FINE" => "(TIS-B)",
                "TISB_MANAGE" | "TISB_ADSB" => "(ADS-R)",
                _ => "(unknown addressing scheme)",
            };
            br.push(format!("cf:{t}"));
            f += &me_text(&cf.me, &cf.aa, scheme, &Capability::AG_UNCERTAIN3, false, &mut br);
        }
        DF::ExtendedQuitterMilitaryApplication { .. } => {
            br.push("df19".into());
        }
        DF::CommBAltitudeReply { bds, alt, .. } => {
            br.push("df20".into());
            let _ = writeln!(f, " Comm-B, Altitude Reply");
            let _ = writeln!(f, "  ICAO Address:  {crc:x} (Mode S / ADS-B)");
            let _ = writeln!(f, "  Altitude:      {} ft", alt.0);
            let _ = write!(f, "  {}", bds_text(bds, &mut br));
        }
        DF::CommBIdentityReply { id, bds, .. } => {
            br.push("df21".into());
            let _ = writeln!(f, " Comm-B, Identity Reply");
            let _ = writeln!(f, "    ICAO Address:  {crc:x} (Mode S / ADS-B)");
            let _ = writeln!(f, "    Squawk:        {id:x}");
            let _ = write!(f, "    {}", bds_text(bds, &mut br));
        }
        DF::ModeSExtendedSquitter { .. } => {
            br.push("df24+".into());
            let _ = writeln!(f, " Mode S Extended Squitter Message");
            let _ = writeln!(f, "    ICAO Address:     {crc:x} (Mode S / ADS-B)");
        }
        #[allow(unreachable_patterns)]
        _ => f += "<new DF variant>",
    }
    (f, br)
}

/// frames pinned by the README / crate docs / test suite: (hex, expected text)
pub const PINNED: &[(&str, &str)] = &[
    (
        "8da2c1bd587ba2adb31799cb802b",
        " Extended Squitter Airborne position (barometric altitude)\n  Address:       a2c1bd (Mode S / ADS-B)\n  Air/Ground:    airborne\n  Altitude:      23650 ft barometric\n  CPR type:      Airborne\n  CPR odd flag:  even\n  CPR latitude:  (87769)\n  CPR longitude: (71577)\n",
    ),
];

/// (hex, text) pairs pinned by the repository's own test suite: every r#"..."# string is paired
/// with the last hex!("...") literal before it
fn load_suite_pinned() -> Vec<(String, String)> {
    let p = verif_dir().join("work/repo/libadsb_deku/tests/test.rs");
    let Ok(src) = std::fs::read_to_string(p) else { return vec![] };
    let mut out = vec![];
    let mut last_hex: Option<String> = None;
    let mut i = 0;
    while i < src.len() {
        let rest = &src[i..];
        let h = rest.find("hex!(\"");
        let r = rest.find("r#\"");
        match (h, r) {
            (Some(h), r) if r.map(|r| h < r).unwrap_or(true) => {
                let start = i + h + 6;
                if let Some(e) = src[start..].find('"') {
                    last_hex = Some(src[start..start + e].to_lowercase());
                    i = start + e;
                } else {
                    break;
                }
            }
            (_, Some(r)) => {
                let start = i + r + 3;
                if let Some(e) = src[start..].find("\"#") {
                    if let Some(h) = &last_hex {
                        out.push((h.clone(), src[start..start + e].to_string()));
                    }
                    i = start + e;
                } else {
                    break;
                }
            }
            _ => break,
        }
    }
    out
}

pub fn eval_c11(buf: &[u8]) -> (Sigs, Vec<String>) {
    let class = refdec::class_of(buf);
    let frame = match decode(buf) {
        Decoded::Ok(f) => f,
        Decoded::Panic(p) => return (vec![(format!("C11/panic/{class}"), format!("decode panicked: {p}"))], vec![]),
        Decoded::Err(_) => return (vec![], vec![]),
    };
    let got = match std::panic::catch_unwind(std::panic::AssertUnwindSafe(|| frame.to_string())) {
        Ok(s) => s,
        Err(_) => return (vec![(format!("C11/panic/{class}"), format!("to_string panicked: {}", last_panic()))], vec![]),
    };
    let (want, br) = refrender(&frame);
    let mut out = vec![];
    if got != want {
        // first differing line
        let (mut gl, mut wl) = (String::new(), String::new());
        for (g, w) in got.lines().zip(want.lines()) {
            if g != w {
                gl = g.to_string();
                wl = w.to_string();
                break;
            }
        }
        if gl.is_empty() && wl.is_empty() {
            gl = format!("{} lines", got.lines().count());
            wl = format!("{} lines", want.lines().count());
        }
        let tmpl = br.iter().find(|b| b.starts_with("me:") || b.starts_with("bds:")).cloned().unwrap_or_else(|| br.first().cloned().unwrap_or_default());
        out.push((format!("C11/template/{}/{tmpl}", br.first().cloned().unwrap_or_default()), format!("rendering differs from the template: got {gl:?}, template gives {wl:?}")));
    }
    if got.is_empty() && !matches!(frame.df, DF::ExtendedQuitterMilitaryApplication { .. }) {
        out.push((format!("C11/empty/{class}"), "supported frame type renders an empty report".into()));
    }
    // bytes after the frame do not change the rendering
    let req = bits::required_len(buf[0] >> 3);
    if buf.len() > req {
        if let Decoded::Ok(g) = decode(&buf[..req]) {
            if g.to_string() != got {
                out.push((format!("C11/tail/{class}"), "rendering changes with bytes after the frame".into()));
            }
        }
    }
    (out, br)
}

/// rendering of one frame in the alloc-only build (worker process) against the template
pub fn eval_c11_nostd(worker: &mut crate::configs::Worker, buf: &[u8]) -> Sigs {
    let Decoded::Ok(frame) = decode(buf) else { return vec![] };
    let answers = worker.ask(&["R".to_string(), format!("F {}", bits::hex(buf))]);
    let Some(a) = answers.get(1) else { return vec![] };
    let Some(i) = a.find("DISPLAY ") else { return vec![] };
    let rest = &a[i + 8..];
    let end = [rest.find("\nCALC "), rest.find("\nPAIR ")].into_iter().flatten().min().map(|e| e + 1).unwrap_or(rest.len());
    let got = &rest[..end];
    let (want, br) = refrender(&frame);
    if got.trim_end_matches('\n') == want.trim_end_matches('\n') {
        return vec![];
    }
    let (g, w) = got.lines().zip(want.lines()).find(|(g, w)| g != w).map(|(g, w)| (g.to_string(), w.to_string())).unwrap_or((format!("{} lines", got.lines().count()), format!("{} lines", want.lines().count())));
    let tmpl = br.iter().find(|x| x.starts_with("me:") || x.starts_with("bds:")).cloned().unwrap_or_default();
    vec![(format!("C11/no_std/template/{tmpl}"), format!("alloc-only build: rendering differs from the template: got {g:?}, template gives {w:?}"))]
}

pub fn replay_c11(v: &Value) -> Vec<Failure> {
    let Some(buf) = bits::unhex(v.get("hex").and_then(|h| h.as_str()).unwrap_or("")) else { return vec![] };
    if v.get("kind").and_then(|k| k.as_str()) == Some("frame_nostd") {
        let mut worker = crate::configs::Worker::spawn();
        return eval_c11_nostd(&mut worker, &buf).into_iter().map(|(sig, msg)| Failure { sig, msg, replay: v.clone() }).collect();
    }
    eval_c11(&buf).0.into_iter().map(|(sig, msg)| Failure { sig, msg, replay: v.clone() }).collect()
}

pub fn run_c11(ctx: &Ctx) -> ! {
    let n = ctx.tier.pick(1_200_000u64, 120_000_000);
    // the reference renderer itself is validated against the pinned strings first
    let mut pre = Stats::default();
    let mut pinned: Vec<(String, String)> = PINNED.iter().map(|(a, b)| (a.to_string(), b.to_string())).collect();
    pinned.extend(load_suite_pinned());
    let mut validated = 0;
    for (hex, text) in &pinned {
        let Some(b) = bits::unhex(hex) else { continue };
        if let Decoded::Ok(f) = decode(&b) {
            let (r, _) = refrender(&f);
            let lib = f.to_string();
            if r == *text {
                validated += 1;
                pre.eval();
                if lib != *text {
                    pre.fail(Failure { sig: "C11/pinned".into(), msg: format!("frame {hex} no longer renders the text pinned by the README / test suite"), replay: json!({"kind":"frame","hex":hex}) });
                }
            } else if lib == *text {
                eprintln!("INCONCLUSIVE: reference renderer disagrees with a pinned string for {hex}:\n{r}\n--- pinned:\n{text}");
                std::process::exit(2);
            }
        }
    }
    pre.notes.insert("pinned_strings_validating_the_reference_renderer".into(), json!(validated));
    let mut st = parallel(|w, st| {
        let mut rng = ctx.rng(11, w as u64);
        let eval = |b: &[u8]| eval_c11(b).0;
        for i in 0..n / WORKERS as u64 {
            // branch-targeted: every DF, every TC, flags edge-biased by gen_me
            let df = match i % 8 {
                0 | 1 | 2 => 17,
                3 | 4 => 18,
                _ => *rng.pick(&SUPPORTED_DF),
            };
            let mut b = gen_frame_df(&mut rng, df);
            if (df == 17 || df == 18) && i % 3 == 0 {
                // concentrate on the templates with many branches
                let tc = *rng.pick(&[19u8, 29, 31, 31, 28, 4, 11, 20]);
                let mut me = gen_me(&mut rng, tc);
                if tc == 31 {
                    bits::set(&mut me, 6, 3, rng.below(2));
                    make_ops_acceptable(&mut rng, &mut me);
                }
                if tc == 19 {
                    bits::set(&mut me, 6, 3, 1 + rng.below(4));
                }
                b[4..11].copy_from_slice(&me);
            }
            if matches!(df, 0 | 4 | 16 | 20) && rng.chance(1, 3) {
                bits::set(&mut b, 20, 13, 0); // altitude 0 branch
            }
            if i % 16 == 0 {
                let nt = 1 + rng.below(8) as usize;
                let t = rng.bytes(nt);
                b.extend_from_slice(&t);
            }
            let (_, br) = eval_c11(&b);
            if !br.is_empty() {
                st.nontrivial(&br);
                for x in &br {
                    st.class(x);
                }
                if st.samples.len() < 5 && i % 30_011 == 0 {
                    st.samples.push(json!({"frame": bits::hex(&b), "branches": br}));
                }
            }
            run_case(st, "c11", &b, &eval);
        }
        // ---- value sweeps: every value of the numeric fields a report prints
        let mut idx = 0usize;
        let sweep = |st: &mut Stats, _rng: &mut proptest::test_runner::TestRng, b: Vec<u8>| {
            st.nontrivial_enum += 1;
            run_case(st, "c11", &b, &eval);
        };
        // ground speed: all 1024 x 1024 component pairs, both ground-speed subtypes, signs random
        for stype in [1u64, 2] {
            for word in 0..(1u64 << 20) {
                idx += 1;
                if idx % WORKERS != w {
                    continue;
                }
                let mut b = gen_frame_df(&mut rng, if word & 4 == 0 { 17 } else { 18 });
                let mut me = gen_me(&mut rng, 19);
                bits::set(&mut me, 6, 3, stype);
                bits::set(&mut me, 15, 10, word >> 10);
                bits::set(&mut me, 26, 10, word & 0x3ff);
                if bits::get(&me, 38, 9) == 0 {
                    bits::set(&mut me, 38, 9, 1 + (word % 511));
                }
                b[4..11].copy_from_slice(&me);
                sweep(st, &mut rng, b);
            }
        }
        st.class("sweep: ground speed components");
        // vertical rate (2^11) and GNSS difference (2^8) under every velocity subtype; airspeed / heading words
        for stype in 0..8u64 {
            for code in 0..(1u64 << 11) {
                idx += 1;
                if idx % WORKERS != w {
                    continue;
                }
                let mut b = gen_frame_df(&mut rng, 17);
                let mut me = gen_me(&mut rng, 19);
                bits::set(&mut me, 6, 3, stype);
                bits::set(&mut me, 36, 11, code);
                if matches!(stype, 1 | 2) {
                    let (e, n) = (1 + rng.below(1023), 1 + rng.below(1023));
                    bits::set(&mut me, 15, 10, e);
                    bits::set(&mut me, 26, 10, n);
                }
                b[4..11].copy_from_slice(&me);
                sweep(st, &mut rng, b);
                let mut b2 = gen_frame_df(&mut rng, 18);
                let mut me2 = gen_me(&mut rng, 19);
                bits::set(&mut me2, 6, 3, stype);
                bits::set(&mut me2, 49, 8, code & 0xff);
                bits::set(&mut me2, 14, 11, code);
                b2[4..11].copy_from_slice(&me2);
                sweep(st, &mut rng, b2);
            }
        }
        st.class("sweep: rates, GNSS difference, heading words");
        // altitude codes (13 bit under DF0/4/16/20, 12 bit under every position type code) and identity codes
        for code in 0..8192u64 {
            idx += 1;
            if idx % WORKERS != w {
                continue;
            }
            for df in [0u8, 4, 16, 20, 5, 21] {
                let mut b = gen_frame_df(&mut rng, df);
                bits::set(&mut b, 20, 13, code);
                sweep(st, &mut rng, b);
            }
            if code < 4096 {
                for tc in (9u8..=18).chain(20..=22) {
                    let mut b = gen_frame_df(&mut rng, if code & 1 == 0 { 17 } else { 18 });
                    let mut me = gen_me(&mut rng, tc);
                    bits::set(&mut me, 9, 12, code);
                    b[4..11].copy_from_slice(&me);
                    sweep(st, &mut rng, b);
                }
            }
            // type 28 identity code, type 29 selected altitude / QNH / heading words
            let mut b = gen_frame_df(&mut rng, 17);
            let mut me = gen_me(&mut rng, 28);
            bits::set(&mut me, 12, 13, code);
            b[4..11].copy_from_slice(&me);
            sweep(st, &mut rng, b);
            if code < 2048 {
                let mut b = gen_frame_df(&mut rng, 17);
                let mut me = gen_me(&mut rng, 29);
                bits::set(&mut me, 6, 2, 1);
                bits::set(&mut me, 10, 11, code);
                b[4..11].copy_from_slice(&me);
                sweep(st, &mut rng, b.clone());
                let mut me = gen_me(&mut rng, 29);
                bits::set(&mut me, 6, 2, 1);
                bits::set(&mut me, 21, 9, code & 0x1ff);
                bits::set(&mut me, 30, 10, code & 0x3ff);
                b[4..11].copy_from_slice(&me);
                sweep(st, &mut rng, b);
            }
        }
        st.class("sweep: altitude and identity codes, target state words");
    });
    // ---- the same template in the alloc-only (no_std) build: a sample of frames is rendered by
    // the worker process that links the library without std, and compared with the template
    // instantiated with the (std-)decoded values
    {
        use crate::configs::Worker;
        let mut rng = ctx.rng(1177, 0);
        let mut worker = Worker::spawn();
        let n = ctx.tier.pick(30_000usize, 600_000);
        let mut frames: Vec<Vec<u8>> = Vec::with_capacity(n);
        for i in 0..n {
            let df = match i % 8 {
                0..=3 => 17,
                4 => 18,
                _ => *rng.pick(&SUPPORTED_DF),
            };
            let mut b = gen_frame_df(&mut rng, df);
            if (df == 17 || df == 18) && i % 2 == 0 {
                let tc = *rng.pick(&[19u8, 19, 19, 29, 31, 28, 4, 11, 20, 7]);
                let mut me = gen_me(&mut rng, tc);
                if tc == 31 {
                    bits::set(&mut me, 6, 3, rng.below(2));
                    make_ops_acceptable(&mut rng, &mut me);
                }
                if tc == 19 {
                    bits::set(&mut me, 6, 3, 1 + rng.below(4));
                    if bits::get(&me, 38, 9) == 0 || rng.chance(1, 2) {
                        bits::set(&mut me, 38, 9, 1 + rng.below(511));
                    }
                }
                b[4..11].copy_from_slice(&me);
            }
            frames.push(b);
        }
        let mut reported = false;
        for chunk in frames.chunks(512) {
            let reqs: Vec<String> = chunk.iter().map(|b| format!("F {}", bits::hex(b))).collect();
            let answers = worker.ask(&reqs);
            for (b, a) in chunk.iter().zip(answers.iter()) {
                let Decoded::Ok(frame) = decode(b) else { continue };
                st.eval();
                let Some(i) = a.find("DISPLAY ") else { continue };
                let rest = &a[i + 8..];
                let end = [rest.find("\nCALC "), rest.find("\nPAIR ")].into_iter().flatten().min().map(|e| e + 1).unwrap_or(rest.len());
                let got = &rest[..end];
                let (want, br) = refrender(&frame);
                // (the transcript ends the report with one more newline)
                if got.trim_end_matches('\n') != want.trim_end_matches('\n') && !reported {
                    reported = true;
                    let (g, w) = got.lines().zip(want.lines()).find(|(g, w)| g != w).map(|(g, w)| (g.to_string(), w.to_string())).unwrap_or((format!("{} lines", got.lines().count()), format!("{} lines", want.lines().count())));
                    let tmpl = br.iter().find(|x| x.starts_with("me:") || x.starts_with("bds:")).cloned().unwrap_or_default();
                    st.fail(Failure { sig: format!("C11/no_std/template/{tmpl}"), msg: format!("alloc-only build: rendering differs from the template: got {g:?}, template gives {w:?} (frame {})", bits::hex(b)), replay: json!({"kind": "frame_nostd", "hex": bits::hex(b)}) });
                }
            }
        }
        st.class_n("rendering in the alloc-only build", n as u64);
    }
    st.exhaustive.push("every pair of velocity components (1024 x 1024) under both ground-speed subtypes".into());
    st.exhaustive.push("every vertical-rate word (2^11), GNSS difference (2^8) and heading/airspeed word under every type-19 subtype".into());
    st.exhaustive.push("every 13-bit altitude / identity code under DF0/4/5/16/20/21, every 12-bit altitude code under every position type code, every type-28 identity code, every type-29 selected altitude / QNH / heading word".into());
    st.merge(pre);
    let mut vac = vec![];
    for must in ["df0", "df4", "df5", "df11", "df16", "df17", "df18", "df19", "df20", "df21", "df24+", "me:ident", "me:surface", "me:airborne_baro", "me:airborne_gnss", "me:vel_gs", "me:vel_as", "me:vel_rsv", "me:status", "me:tss", "me:ops_air", "me:ops_surf", "me:ops_rsv", "me:noposition", "me:reserved", "me:surface_system", "me:coordination", "calc:some", "calc:none", "alt>0", "alt=0", "alt:some", "alt:none", "tss:heading", "tss:noheading", "tss:noacas", "lw:shown", "lw:hidden", "hrd:magnetic", "hrd:true", "baro_rate:shown", "baro_rate:hidden", "bds:empty", "bds:ident", "bds:dlc", "bds:unknown", "om:sda", "om:tcas"] {
        if st.classes.get(must).copied().unwrap_or(0) == 0 {
            vac.push(format!("renderer branch '{must}' never exercised"));
        }
    }
    st.notes.insert("distinct_branch_outcomes_observed".into(), json!(st.classes.len()));
    finish(
        ctx,
        st,
        "structured frames of every format/type/subtype with the renderer's branch conditions targeted (altitude 0 / > 0, each status/capability word, heading/ACAS/autopilot flags, rate present or not, L/W, SDA, HRD, each BDS variant), 1/16 with trailing bytes; oracle: Frame::to_string() == independent template renderer instantiated with the decoded frame's own fields; non-empty except DF19; unchanged by trailing bytes; non-trivial = accepted frame, distinct = distinct (template, branch vector) combination (hash of the branch vector)",
        &["the reference renderer is validated against the README example before the run", "field correctness is decided by C04-C10; this check is about rendering only"],
        vac,
    )
}
