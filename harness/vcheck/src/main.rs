
#[global_allocator]
static GLOBAL: total::CountingAlloc = total::CountingAlloc;

use vcheck::core::*;
use vcheck::*;

fn usage() -> ! {
    eprintln!("usage: vcheck <C01..C20> quick|thorough | vcheck <ID> --replay <path>");
    std::process::exit(2);
}

/// a log subscriber that wants every event and throws it away: `tracing` evaluates the arguments
/// of a log statement only when a subscriber is interested, which radar and 1090 always are
struct EveryEvent;

impl tracing::Subscriber for EveryEvent {
    fn enabled(&self, _: &tracing::Metadata<'_>) -> bool {
        true
    }
    fn new_span(&self, _: &tracing::span::Attributes<'_>) -> tracing::span::Id {
        tracing::span::Id::from_u64(1)
    }
    fn record(&self, _: &tracing::span::Id, _: &tracing::span::Record<'_>) {}
    fn record_follows_from(&self, _: &tracing::span::Id, _: &tracing::span::Id) {}
    fn event(&self, e: &tracing::Event<'_>) {
        // format the fields, as a real subscriber would
        struct V(usize);
        impl tracing::field::Visit for V {
            fn record_debug(&mut self, _: &tracing::field::Field, v: &dyn std::fmt::Debug) {
                use std::fmt::Write;
                let mut s = String::new();
                let _ = write!(s, "{v:?}");
                self.0 += s.len();
            }
        }
        let mut v = V(0);
        e.record(&mut v);
        std::hint::black_box(v.0);
    }
    fn enter(&self, _: &tracing::span::Id) {}
    fn exit(&self, _: &tracing::span::Id) {}
}

fn main() {
    if std::env::var("VERIF_NO_LOG_SUBSCRIBER").is_err() {
        let _ = tracing::subscriber::set_global_default(EveryEvent);
    }
    let args: Vec<String> = std::env::args().collect();
    if args.len() >= 2 && args[1] == "helper" {
        helper::main();
    }
    if args.len() < 3 {
        usage();
    }
    framecheck::install_quiet_panic_hook();
    let pid: &'static str = Box::leak(args[1].clone().into_boxed_str());
    if args[2] == "--replay" {
        let path = args.get(3).cloned().unwrap_or_else(|| usage());
        let txt = std::fs::read_to_string(&path).unwrap_or_else(|e| {
            eprintln!("cannot read {path}: {e}");
            std::process::exit(2)
        });
        let v: serde_json::Value = serde_json::from_str(&txt).unwrap_or_else(|e| {
            eprintln!("cannot parse {path}: {e}");
            std::process::exit(2)
        });
        let fails = regress::dispatch(pid, &v);
        if !matches!(pid, "C01" | "C02" | "C03" | "C04" | "C05" | "C06" | "C07" | "C08" | "C09" | "C10" | "C11" | "C12" | "C13" | "C14" | "C15" | "C19" | "C20") {
            usage();
        }
        finish_replay(pid, fails, &path);
    }
    let tier = match args[2].as_str() {
        "quick" => Tier::Quick,
        "thorough" => Tier::Thorough,
        _ => usage(),
    };
    let mut ctx = Ctx::new(pid, tier);
    if pid == "C01" || pid == "C19" {
        // (60 s without progress on one input: generous, so that a machine under heavy load does
        // not make a healthy run inconclusive; a real hang is confirmed by bounded re-runs anyway)
        total::start_watchdog(60_000);
    }
    regress::run(pid);
    regress::done(pid);
    match pid {
        "C01" => total::run_c01(&ctx),
        "C02" => accept::run_c02(&ctx),
        "C03" => accept::run_c03(&ctx),
        "C04" => decoder::run_c04(&ctx),
        "C05" => cprcheck::run_c05(&ctx),
        "C06" => decoder::run_c06(&ctx),
        "C07" => decoder::run_c07(&ctx),
        "C08" => decoder::run_c08(&ctx),
        "C09" => decoder::run_c09(&ctx),
        "C10" => decoder::run_c10(&ctx),
        "C11" => render::run_c11(&ctx),
        "C12" | "C13" | "C14" | "C15" => tracker::run(&ctx, pid),
        "C19" => readercheck::run_c19(&mut ctx),
        "C20" => configs::run_c20(&ctx),
        _ => usage(),
    }
}
