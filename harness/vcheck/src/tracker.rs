//! C12-C15: tracker histories (proptest `vec(op)` + interpreter) against a reference model.
use crate::bits::{self, set};
use crate::core::*;
use crate::framecheck::last_panic;
use crate::framegen::{gen_frame_df, squitter};
use crate::refcpr;
use crate::refdec;
use adsb_deku::{cpr, Altitude, Frame, ICAO};
use proptest::prelude::*;
use proptest::test_runner::{Config, RngSeed, TestCaseError, TestError, TestRunner};
use rsadsb_common::{Added, Airplanes};
use serde_json::{json, Value};
use std::collections::BTreeMap;
use std::panic::{catch_unwind, AssertUnwindSafe};

// ---------------------------------------------------------------------------------------------
// operations
// ---------------------------------------------------------------------------------------------

#[derive(Clone, Debug, PartialEq)]
pub enum PosSrc {
    /// move the aircraft's true position by d_nm (<= 3) along bearing, then report it
    Flight { bearing: u16, d_centinm: u16 },
    /// move by `km` along bearing (jumps on both sides of 100 km, and far ones)
    Jump { bearing: u16, km: u16 },
    /// place at `permille`/1000 x max range from the receiver along bearing
    AtRange { bearing: u16, permille: u16 },
    /// arbitrary raw CPR values
    Raw { yz: u32, xz: u32 },
    /// report the current true position again (same raw values as the last report of this parity)
    Same,
    /// the last position report of this parity once more, bit for bit (same type code, altitude
    /// code and CPR values: two receivers feeding one tracker, a replayed capture)
    Again,
    /// the CPR words the next aircraft sent last in this parity (a rebroadcast twin under another
    /// address, two aircraft in one CPR cell): two records with a bit-identical position
    Twin,
    /// latitude fields of an even / odd pair whose zone-index rounding is an exact tie
    /// (59 YZ0 - 60 YZ1 = -65536 (2t + 1)); the longitude field is that of the true position
    Tie { t: u8, k: u16 },
}

#[derive(Clone, Debug, PartialEq)]
pub enum Kind {
    Ident { codes: [u8; 8], tc: u8 },
    Velocity { st: u8, ew: u16, ew_sign: bool, ns: u16, ns_sign: bool, vr: u16, vr_sign: bool },
    Position { odd: bool, tc: u8, alt: u16, src: PosSrc },
    OtherMe { tc: u8, fill: u64 },
}

#[derive(Clone, Debug, PartialEq)]
pub enum Op {
    /// extended squitter: df18 = None -> DF17, Some(cf) -> DF18 with that control field.
    /// ac & 0x7f is the aircraft; ac & 0x80: one bit of the parity field arrives flipped (the frame
    /// still decodes, its checksum remainder is not zero)
    Squitter { ac: u8, df18: Option<u8>, kind: Kind },
    /// a non-squitter format carrying the same address (AP overlay, or AA for DF11/24+)
    OtherFormat { ac: u8, df: u8, fill: u64 },
    /// let `half_s` x 0.5 s pass for every tracked aircraft
    Advance { half_s: u16 },
    Prune { t: u64 },
    /// the receiver moves to another site (the clients pass the receiver position with every
    /// frame; radar updates it from gpsd)
    MoveRx { site: u8 },
}

#[derive(Clone, Debug, PartialEq)]
pub struct Scenario {
    pub rx: u8,
    pub range: u8,
    /// initial (bearing deg, permille of range) of each aircraft relative to the receiver
    pub start: Vec<(u16, u16)>,
    pub ops: Vec<Op>,
    /// aircraft whose record is re-derived from its own frames only (isolation)
    pub isolate: u8,
    /// bit a set: aircraft a starts on the longitude-zone transition latitude nearest to its
    /// start position (a few CPR steps beside it), so that its flight wanders across the boundary
    pub snap: u8,
}

// (the last site has the latitude of the first and another longitude: anything remembered per latitude shows)
// (appended: three sites 100-700 km from the first one - a receiver that is corrected or moves
// while an aircraft is tracked: about 105 km east, 100 km north, one odd longitude zone east)
pub const RX: [(f64, f64); 11] = [(52.0, 4.0), (85.0, 10.0), (0.01, 179.9), (-33.9, 151.2), (40.0, -100.0), (0.0, 0.0), (-89.0, -179.95), (52.0, -120.0), (52.0, 5.53), (52.9, 4.0), (52.0, 14.2857)];
// (appended: no limit at all - more than half the circumference of the Earth, and infinity)
pub const RANGES: [f64; 6] = [500.0, 50.0, 20000.0, 0.0, 40075.0, f64::INFINITY];
// (addresses that differ from the first one in the last, the first or the middle octet only; the all-zero and the all-one address)
// (the first two differ in one bit only)
const ADDR: [u32; 6] = [0xabc001, 0xabc003, 0x7cc001, 0xab0001, 0x000000, 0xffffff];

fn bearing_s() -> impl Strategy<Value = u16> {
    0u16..360
}

fn possrc_s() -> impl Strategy<Value = PosSrc> {
    prop_oneof![
        12 => (bearing_s(), 0u16..=300).prop_map(|(bearing, d_centinm)| PosSrc::Flight { bearing, d_centinm }),
        2 => (bearing_s(), prop_oneof![90u16..111, 500u16..3000, 1u16..90]).prop_map(|(bearing, km)| PosSrc::Jump { bearing, km }),
        2 => (bearing_s(), prop_oneof![Just(990u16), Just(1010), 0u16..1000, 1000u16..2000]).prop_map(|(bearing, permille)| PosSrc::AtRange { bearing, permille }),
        1 => (prop_oneof![4 => 0u32..131072, 1 => Just(0u32), 1 => Just(131071u32)], prop_oneof![4 => 0u32..131072, 1 => Just(0u32), 1 => Just(131071u32)]).prop_map(|(yz, xz)| PosSrc::Raw { yz, xz }),
        2 => Just(PosSrc::Same),
        2 => Just(PosSrc::Again),
        1 => Just(PosSrc::Twin),
        1 => (0u8..6, 0u16..4).prop_map(|(t, k)| PosSrc::Tie { t, k }),
    ]
}

fn alt_s() -> impl Strategy<Value = u16> {
    // the 100 ft (Gillham) codes for 0 ft and 100 ft: an altitude of exactly 0 is an altitude
    let zero_ft: Vec<u16> = (0u16..4096).filter(|c| matches!(refdec::ac12_ft(*c as u32), Some(0) | Some(100))).collect();
    prop_oneof![
        6 => (41u16..2047).prop_map(|n| ((n & 0x7f0) << 1) | 0x10 | (n & 0xf)),
        1 => Just(0u16),
        2 => 0u16..4096,
        1 => proptest::sample::select(if zero_ft.is_empty() { vec![0u16] } else { zero_ft }),
    ]
}

fn kind_s() -> impl Strategy<Value = Kind> {
    prop_oneof![
        2 => (prop_oneof![
                12 => proptest::array::uniform8(prop_oneof![4 => 1u8..27, 2 => 48u8..58, 2 => Just(32u8), 1 => 0u8..64]),
                1 => Just([32u8; 8]),                              // all blanks: an empty call sign
                1 => Just([32, 32, 32, 32, 32, 32, 32, 1u8]),      // only the 8th character
                1 => Just([0u8; 8]),                               // unassigned code 0 throughout
            ], 1u8..5).prop_map(|(codes, tc)| Kind::Ident { codes, tc }),
        3 => (prop_oneof![6 => 1u8..3, 1 => 0u8..8], prop_oneof![1 => Just(0u16), 2 => prop_oneof![Just(1u16), Just(2), Just(1023)], 3 => 1u16..1024, 3 => prop_oneof![Just(121u16), Just(431)]], any::<bool>(), prop_oneof![1 => Just(0u16), 2 => prop_oneof![Just(1u16), Just(2), Just(1023)], 3 => 1u16..1024, 3 => prop_oneof![Just(121u16), Just(431)]], any::<bool>(), prop_oneof![1 => Just(0u16), 2 => prop_oneof![Just(1u16), Just(2), Just(511)], 6 => 1u16..512], any::<bool>())
            .prop_map(|(st, ew, ew_sign, ns, ns_sign, vr, vr_sign)| Kind::Velocity { st, ew, ew_sign, ns, ns_sign, vr, vr_sign }),
        9 => (any::<bool>(), prop_oneof![9u8..19, 20u8..23], alt_s(), possrc_s()).prop_map(|(odd, tc, alt, src)| Kind::Position { odd, tc, alt, src }),
        1 => (prop_oneof![Just(0u8), 5u8..9, 23u8..32], any::<u64>()).prop_map(|(tc, fill)| Kind::OtherMe { tc, fill }),
    ]
}

fn op_s(nac: u8, with_time: bool) -> BoxedStrategy<Op> {
    let sq = (0..nac, prop_oneof![15 => Just(0u8), 1 => Just(0x80u8)], prop_oneof![3 => Just(None), 1 => (0u8..8).prop_map(Some)], kind_s()).prop_map(|(ac, damaged, df18, kind)| Op::Squitter { ac: ac | damaged, df18, kind });
    let other = (0..nac, prop_oneof![Just(0u8), Just(4), Just(5), Just(11), Just(16), Just(19), Just(20), Just(21), 24u8..32], any::<u64>()).prop_map(|(ac, df, fill)| Op::OtherFormat { ac, df, fill });
    if with_time {
        prop_oneof![
            16 => sq,
            2 => other,
            2 => prop_oneof![10 => 1u16..12, 1 => prop_oneof![Just(239u16), Just(241), Just(250), Just(1300), Just(14400)]].prop_map(|half_s| Op::Advance { half_s }),
            1 => (0u8..RX.len() as u8).prop_map(|site| Op::MoveRx { site }),
            1 => prop_oneof![8 => 0u64..5, 1 => prop_oneof![Just(u64::MAX), Just(1u64 << 63), Just(i64::MAX as u64), Just(1u64 << 40), Just(u32::MAX as u64 + 1)]].prop_map(|t| Op::Prune { t }),
        ]
        .boxed()
    } else {
        prop_oneof![36 => sq, 4 => other, 1 => (0u8..RX.len() as u8).prop_map(|site| Op::MoveRx { site })].boxed()
    }
}

pub fn scenario_s(max_ops: usize, with_time: bool) -> impl Strategy<Value = Scenario> {
    prop_oneof![4 => 1u8..5, 1 => 5u8..7].prop_flat_map(move |nac| {
        (0u8..RX.len() as u8, 0u8..RANGES.len() as u8, proptest::collection::vec((bearing_s(), 0u16..900), nac as usize), proptest::collection::vec(op_s(nac, with_time), 0..max_ops), 0..nac, prop_oneof![6 => Just(0u8), 2 => 0u8..16, 1 => (0u8..16).prop_map(|x| x | 0x80)])
            .prop_map(|(rx, range, start, ops, isolate, snap)| Scenario { rx, range, start, ops, isolate, snap })
    })
}

// ---------------------------------------------------------------------------------------------
// frame construction
// ---------------------------------------------------------------------------------------------

#[derive(Clone, Copy, Debug, PartialEq)]
pub struct PosRep {
    pub yz: u32,
    pub xz: u32,
    pub alt: Option<i64>,
    pub alt_code: u16,
}

/// world state the interpreter keeps so that frames are a pure function of the op list
pub struct World {
    pub rx: (f64, f64),
    pub range: f64,
    pub truth: Vec<(f64, f64)>,
    pub last_raw: Vec<[Option<(u32, u32)>; 2]>,
    /// (type code, altitude code) of the last position report per aircraft and parity
    pub last_meta: Vec<[Option<(u8, u16)>; 2]>,
}

impl World {
    pub fn new(s: &Scenario) -> World {
        let rx = RX[s.rx as usize % RX.len()];
        let range = RANGES[s.range as usize % RANGES.len()];
        let base = if range > 0.0 && range < 1000.0 { range } else { 400.0 };
        let mut truth: Vec<(f64, f64)> = s.start.iter().map(|(b, pm)| refcpr::destination(rx, *b as f64, base * *pm as f64 / 1000.0)).collect();
        for (a, t) in truth.iter_mut().enumerate() {
            if s.snap >> a & 1 == 1 {
                // (bearing, permille) of the start double as a small offset: -8..+8 half CPR latitude steps
                let steps = (s.start[a].1 % 17) as f64 - 8.0;
                let sign = if t.0 < 0.0 { -1.0 } else { 1.0 };
                let l = t.0.abs();
                let tr = refcpr::transitions();
                let (edge, sign) = if s.snap & 0x80 != 0 {
                    // any of the 58 transitions, either hemisphere, on the receiver's meridian
                    let k = s.start[a].0 as usize;
                    t.1 = rx.1 + 0.01 * a as f64;
                    (tr[k % tr.len()], if (k / tr.len()) % 2 == 0 { 1.0 } else { -1.0 })
                } else {
                    (tr.iter().copied().min_by(|x, y| (x - l).abs().partial_cmp(&(y - l).abs()).unwrap()).unwrap(), sign)
                };
                t.0 = sign * (edge + steps * 360.0 / 60.0 / 131072.0 * 0.5).min(89.9);
            }
        }
        World { rx, range, truth, last_raw: vec![[None, None]; s.start.len()], last_meta: vec![[None, None]; s.start.len()] }
    }
}

pub struct Built {
    pub bytes: Vec<u8>,
    pub addr: u32,
    pub squitter: bool,
    pub ident_raw: Option<String>,
    pub velocity: Option<Option<(f64, f64, i64)>>,
    pub position: Option<(bool, PosRep)>,
}

pub fn build(world: &mut World, op: &Op) -> Option<Built> {
    match op {
        Op::Squitter { ac, df18, kind } => {
            let a = (*ac & 0x7f) as usize % world.truth.len();
            let addr = ADDR[a];
            let mut me = [0u8; 7];
            let mut b = Built { bytes: vec![], addr, squitter: true, ident_raw: None, velocity: None, position: None };
            match kind {
                Kind::Ident { codes, tc } => {
                    set(&mut me, 1, 5, *tc as u64);
                    set(&mut me, 6, 3, (codes[0] & 7) as u64);
                    for (i, c) in codes.iter().enumerate() {
                        set(&mut me, 9 + 6 * i, 6, *c as u64);
                    }
                    b.ident_raw = Some(refdec::callsign_raw(&me, 9));
                }
                Kind::Velocity { st, ew, ew_sign, ns, ns_sign, vr, vr_sign } => {
                    set(&mut me, 1, 5, 19);
                    set(&mut me, 6, 3, *st as u64);
                    set(&mut me, 14, 1, *ew_sign as u64);
                    set(&mut me, 15, 10, *ew as u64);
                    set(&mut me, 25, 1, *ns_sign as u64);
                    set(&mut me, 26, 10, *ns as u64);
                    set(&mut me, 36, 1, (*vr & 1) as u64);
                    set(&mut me, 37, 1, *vr_sign as u64);
                    set(&mut me, 38, 9, *vr as u64);
                    b.velocity = Some(refdec::velocity_calc(&me));
                }
                Kind::Position { odd, tc, alt, src } => {
                    let parity = *odd as u32;
                    let (tc_v, alt_v): (u8, u16) = match (src, world.last_meta[a][parity as usize]) {
                        (PosSrc::Again, Some(m)) => m,
                        _ => (*tc, *alt),
                    };
                    let (tc, alt) = (&tc_v, &alt_v);
                    let (yz, xz) = match src {
                        PosSrc::Flight { bearing, d_centinm } => {
                            world.truth[a] = refcpr::destination(world.truth[a], *bearing as f64, *d_centinm as f64 / 100.0 * 1.852);
                            let e = refcpr::encode(world.truth[a].0, world.truth[a].1, parity);
                            (e.0, e.1)
                        }
                        PosSrc::Jump { bearing, km } => {
                            world.truth[a] = refcpr::destination(world.truth[a], *bearing as f64, *km as f64);
                            let e = refcpr::encode(world.truth[a].0, world.truth[a].1, parity);
                            (e.0, e.1)
                        }
                        PosSrc::AtRange { bearing, permille } => {
                            let base = if world.range > 0.0 && world.range < 1000.0 { world.range } else { 400.0 };
                            world.truth[a] = refcpr::destination(world.rx, *bearing as f64, base * *permille as f64 / 1000.0);
                            let e = refcpr::encode(world.truth[a].0, world.truth[a].1, parity);
                            (e.0, e.1)
                        }
                        PosSrc::Raw { yz, xz } => (*yz, *xz),
                        PosSrc::Tie { t, k } => {
                            let rhs = 65536 * (2 * *t as i64 + 1);
                            let base = (rhs % 59 + 59) % 59;
                            let kmax = (131071 - base) / 59;
                            let yz1 = base + 59 * ((*k as i64 * 531 + 18) % (kmax + 1));
                            let yz0 = (60 * yz1 - rhs) / 59;
                            let e = refcpr::encode(world.truth[a].0, world.truth[a].1, parity);
                            if (60 * yz1 - rhs) % 59 == 0 && (0..131072).contains(&yz0) {
                                (if parity == 0 { yz0 as u32 } else { yz1 as u32 }, e.1)
                            } else {
                                (e.0, e.1)
                            }
                        }
                        PosSrc::Twin => {
                            let other = (a + 1) % world.truth.len();
                            match world.last_raw[other][parity as usize] {
                                Some(r) => {
                                    world.truth[a] = world.truth[other];
                                    r
                                }
                                None => {
                                    let e = refcpr::encode(world.truth[a].0, world.truth[a].1, parity);
                                    (e.0, e.1)
                                }
                            }
                        }
                        PosSrc::Same | PosSrc::Again => match world.last_raw[a][parity as usize] {
                            Some(r) => r,
                            None => {
                                let e = refcpr::encode(world.truth[a].0, world.truth[a].1, parity);
                                (e.0, e.1)
                            }
                        },
                    };
                    world.last_raw[a][parity as usize] = Some((yz, xz));
                    world.last_meta[a][parity as usize] = Some((*tc, *alt));
                    set(&mut me, 1, 5, *tc as u64);
                    set(&mut me, 9, 12, *alt as u64);
                    set(&mut me, 22, 1, parity as u64);
                    set(&mut me, 23, 17, yz as u64);
                    set(&mut me, 40, 17, xz as u64);
                    let ft = refdec::ac12_ft(*alt as u32).filter(|a| *a >= 0 && *a <= 65535);
                    b.position = Some((*odd, PosRep { yz, xz, alt: ft, alt_code: *alt }));
                }
                Kind::OtherMe { tc, fill } => {
                    for (i, x) in me.iter_mut().enumerate() {
                        *x = (fill >> (8 * i)) as u8;
                    }
                    set(&mut me, 1, 5, *tc as u64);
                    if *tc == 31 {
                        // keep type-31 reports decodable
                        set(&mut me, 9, 2, 0);
                        set(&mut me, 13, 2, 0);
                        set(&mut me, 25, 2, 0);
                        set(&mut me, 41, 3, fill % 3);
                    }
                }
            }
            b.bytes = match df18 {
                None => squitter(17, 5, addr, &me),
                Some(cf) => squitter(18, *cf, addr, &me),
            };
            if *ac & 0x80 != 0 {
                let n = b.bytes.len();
                b.bytes[n - 1 - (me[1] as usize % 3)] ^= 1 << (me[2] % 8);
            }
            Some(b)
        }
        Op::OtherFormat { ac, df, fill } => {
            let a = *ac as usize % world.truth.len();
            let addr = ADDR[a];
            let n = bits::required_len(*df);
            let mut bytes = vec![0u8; n];
            for (i, x) in bytes.iter_mut().enumerate() {
                *x = (fill.rotate_left(5 * i as u32) >> 3) as u8;
            }
            set(&mut bytes, 1, 5, *df as u64);
            match df {
                11 | 24..=31 => {
                    set(&mut bytes, 9, 24, addr as u64);
                }
                19 => {}
                _ => bits::fix_parity(&mut bytes, addr),
            }
            Some(Built { bytes, addr, squitter: false, ident_raw: None, velocity: None, position: None })
        }
        _ => None,
    }
}

// ---------------------------------------------------------------------------------------------
// observable state of the implementation
// ---------------------------------------------------------------------------------------------

fn icao(a: u32) -> ICAO {
    ICAO([(a >> 16) as u8, (a >> 8) as u8, a as u8])
}
fn icao_u(i: &ICAO) -> u32 {
    ((i.0[0] as u32) << 16) | ((i.0[1] as u32) << 8) | i.0[2] as u32
}

fn alt_dump(a: &Option<Altitude>) -> Value {
    match a {
        None => Value::Null,
        Some(a) => json!({"odd": format!("{:?}", a.odd_flag), "lat_cpr": a.lat_cpr, "lon_cpr": a.lon_cpr, "alt": a.alt, "tc": a.tc}),
    }
}

fn f64j(x: f64) -> Value {
    if x.is_finite() {
        json!(x)
    } else {
        json!(format!("{x}"))
    }
}

/// canonical dump of everything observable through the public API, without time stamps
pub fn dump(p: &Airplanes) -> Value {
    let mut recs = serde_json::Map::new();
    for (k, s) in p.iter() {
        let c = &s.coords;
        let track: Vec<Value> = s.track.as_ref().map(|t| t.iter().map(|c| json!({"pos": c.position.map(|p| vec![f64j(p.latitude), f64j(p.longitude)]), "dist": c.kilo_distance.map(f64j), "slots": [alt_dump(&c.altitudes[0]), alt_dump(&c.altitudes[1])]})).collect()).unwrap_or_default();
        let det = p.aircraft_details(*k).map(|d| json!({"pos": [f64j(d.position.latitude), f64j(d.position.longitude)], "alt": d.altitude, "dist": f64j(d.kilo_distance), "heading": d.heading.map(|h| f64j(h as f64)), "track_len": d.track.map(|t| t.len())}));
        recs.insert(
            k.to_string(),
            json!({
                "num_messages": s.num_messages,
                "callsign": s.callsign,
                "heading": s.heading.map(|h| f64j(h as f64)),
                "speed": s.speed.map(|h| f64j(h as f64)),
                "vert_speed": s.vert_speed,
                "squawk": s.squawk,
                "on_ground": s.on_ground,
                "position": c.position.map(|p| vec![f64j(p.latitude), f64j(p.longitude)]),
                "kilo_distance": c.kilo_distance.map(f64j),
                "slots": [alt_dump(&c.altitudes[0]), alt_dump(&c.altitudes[1])],
                "track_is_some": s.track.is_some(),
                "track": track,
                "details": det,
            }),
        );
    }
    json!({
        "len": p.len(),
        "is_empty": p.is_empty(),
        "records": recs,
        "all_position": p.all_position().iter().map(|(k, pos)| json!([k.to_string(), f64j(pos.latitude), f64j(pos.longitude)])).collect::<Vec<_>>(),
        "to_string": p.to_string(),
    })
}

// ---------------------------------------------------------------------------------------------
// reference model
// ---------------------------------------------------------------------------------------------

#[derive(Clone, Debug, Default)]
pub struct Rec {
    pub count: u32,
    /// raw 8 characters of the latest identification
    pub callsign: Option<String>,
    pub velocity: Option<(f64, f64, i64)>,
    pub slots: [Option<PosRep>; 2],
    pub position: Option<(f64, f64)>,
    /// all earlier publications, oldest first: (position, must appear in the track)
    pub history: Vec<((f64, f64), bool)>,
    /// age of the last squitter in half seconds
    pub age_half_s: u64,
}

#[derive(Default)]
pub struct Model {
    pub recs: BTreeMap<u32, Rec>,
}

fn lib_report(parity: u32, r: &PosRep) -> Altitude {
    crate::cprcheck::report(parity, r.yz, r.xz)
}

fn close(a: f64, b: f64, rel: f64) -> bool {
    (a - b).abs() <= rel * a.abs().max(b.abs()).max(1.0)
}

fn pos_eq(a: (f64, f64), b: (f64, f64)) -> bool {
    (a.0 - b.0).abs() < 1e-9 && refcpr::lon_diff(a.1, b.1) < 1e-9
}

pub type Fail = (String, String);

/// Interpret one history on a fresh tracker and a fresh model.  `only`: restrict to the frames of
/// this aircraft (time ops are kept).  Returns the failures found (the history stops at the first
/// op that produces any) and the final tracker.
pub struct RunOut {
    pub fails: Vec<Fail>,
    pub planes: Airplanes,
    pub publishes: u32,
    pub clears: u32,
    pub partial_prunes: u32,
    pub interleaved: bool,
    pub saw_df18: bool,
    pub saw_other: bool,
    pub dontcare: u32,
    pub jump_clears: u32,
    pub range_clears: u32,
    pub readds: u32,
    pub steps: Vec<String>,
}

pub fn run_history(s: &Scenario, only: Option<u8>, trace: bool) -> RunOut {
    let mut world = World::new(s);
    let mut planes = Airplanes::new();
    let mut model = Model::default();
    let mut out = RunOut { fails: vec![], planes: Airplanes::new(), publishes: 0, clears: 0, partial_prunes: 0, interleaved: false, saw_df18: false, saw_other: false, dontcare: 0, jump_clears: 0, range_clears: 0, readds: 0, steps: vec![] };
    let (mut rx, range) = (world.rx, world.range);
    let mut last_ac: Option<u8> = None;
    let mut ever: std::collections::BTreeSet<u32> = Default::default();
    for (opi, op) in s.ops.iter().enumerate() {
        let mut fails: Vec<Fail> = vec![];
        match op {
            Op::Squitter { ac, .. } | Op::OtherFormat { ac, .. } => {
                // frames are always built so that the world evolves identically under restriction
                let Some(b) = build(&mut world, op) else { continue };
                if let Some(o) = only {
                    if (*ac & 0x7f) as usize % world.truth.len() != o as usize % world.truth.len() {
                        continue;
                    }
                }
                if let Some(l) = last_ac {
                    if l != *ac & 0x7f {
                        out.interleaved = true;
                    }
                }
                last_ac = Some(*ac & 0x7f);
                let frame = match catch_unwind(AssertUnwindSafe(|| Frame::from_bytes(&b.bytes))) {
                    Ok(Ok(f)) => f,
                    _ => {
                        // decoding is decided elsewhere - but a DF17 airborne position report that
                        // never reaches the tracker leaves the published position behind the
                        // aircraft: the pairing of "the most recent reports" needs them all
                        if b.position.is_some() && b.bytes[0] >> 3 == 17 && *ac & 0x80 == 0 {
                            out.fails.push(("C13/report_refused".into(), format!("the airborne position report {} (DF17, altitude code {:#05x}) is refused by the decoder and never reaches the tracker", bits::hex(&b.bytes), b.position.map(|p| p.1.alt_code).unwrap_or(0))));
                        }
                        continue;
                    }
                };
                if trace {
                    out.steps.push(format!("{opi}: {} {:?}", bits::hex(&b.bytes), op));
                }
                let before = if b.squitter { Value::Null } else { dump(&planes) };
                let res = catch_unwind(AssertUnwindSafe(|| planes.action(frame, rx, range)));
                let added = match res {
                    Ok(a) => a,
                    Err(_) => {
                        fails.push(("C01/panic/tracker".into(), format!("Airplanes::action panicked at {}", last_panic())));
                        out.fails = fails;
                        out.planes = planes;
                        return out;
                    }
                };
                if !b.squitter {
                    out.saw_other = true;
                    if added == Added::Yes {
                        fails.push(("C12/added/other_format".into(), format!("a DF{} frame was reported as adding an aircraft", b.bytes[0] >> 3)));
                    }
                    let after = dump(&planes);
                    if after != before {
                        fails.push(("C12/other_format_changes_state".into(), format!("a DF{} frame ({}) changed the tracker state", b.bytes[0] >> 3, bits::hex(&b.bytes))));
                    }
                } else {
                    if b.bytes[0] >> 3 == 18 {
                        out.saw_df18 = true;
                    }
                    step_model(&mut model, &b, added, &planes, rx, range, &mut fails, &mut out, &mut ever);
                }
            }
            Op::MoveRx { site } => {
                world.rx = RX[*site as usize % RX.len()];
                rx = world.rx;
                if trace {
                    out.steps.push(format!("{opi}: receiver moves to {rx:?}"));
                }
            }
            Op::Advance { half_s } => {
                for (k, r) in model.recs.iter_mut() {
                    r.age_half_s += *half_s as u64;
                    planes.verif_backdate(icao(*k), std::time::Duration::from_millis(500 * *half_s as u64));
                }
                if trace {
                    out.steps.push(format!("{opi}: advance {} s", *half_s as f64 / 2.0));
                }
            }
            Op::Prune { t } => {
                let before = dump(&planes);
                planes.prune(*t);
                let keep: Vec<u32> = model.recs.iter().filter(|(_, r)| (r.age_half_s as u128) < 2 * *t as u128).map(|(k, _)| *k).collect();
                let n_before = model.recs.len();
                model.recs.retain(|k, _| keep.contains(k));
                if !keep.is_empty() && keep.len() < n_before {
                    out.partial_prunes += 1;
                }
                let mut got: Vec<u32> = planes.keys().map(icao_u).collect();
                got.sort_unstable();
                if let Some(k) = keep.iter().find(|k| !got.contains(k)) {
                    // C12's side of the same event: the tracked set shrank by an aircraft that had not expired
                    fails.push(("C12/removed_without_expiry".into(), format!("prune({t}) removed {k:06x}, which was heard {} s ago", model.recs.get(k).map(|r| r.age_half_s as f64 / 2.0).unwrap_or(0.0))));
                    // C13's side: a published position disappears although nothing cleared the record
                    if before["records"].get(format!("{k:06x}")).and_then(|r| r.get("position")).map(|p| !p.is_null()).unwrap_or(false) {
                        fails.push(("C13/position_lost_without_clear".into(), format!("prune({t}) removed {k:06x} together with its published position although the aircraft was heard {} s ago", model.recs.get(k).map(|r| r.age_half_s as f64 / 2.0).unwrap_or(0.0))));
                    }
                }
                if got != keep {
                    fails.push(("C15/prune_keys".into(), format!("prune({t}) left {:?}, expected {:?} (ages in s: {:?})", got.iter().map(|x| format!("{x:06x}")).collect::<Vec<_>>(), keep.iter().map(|x| format!("{x:06x}")).collect::<Vec<_>>(), before["records"].as_object().map(|o| o.keys().cloned().collect::<Vec<_>>()))));
                } else {
                    let after = dump(&planes);
                    for k in &keep {
                        let key = format!("{k:06x}");
                        if after["records"][&key] != before["records"][&key] {
                            fails.push(("C15/survivor_changed".into(), format!("prune({t}) changed the record of surviving aircraft {key}")));
                        }
                    }
                }
                if trace {
                    out.steps.push(format!("{opi}: prune({t})"));
                }
            }
        }
        // invariants over every record, after every op (the derived views must not panic either)
        if catch_unwind(AssertUnwindSafe(|| invariants(&planes, &model, &mut fails))).is_err() {
            let m = format!("a derived view of the tracker (details / position list / text form) panicked at {}", last_panic());
            fails.push(("C14/views_panic".into(), m.clone()));
            fails.push(("C01/panic/tracker/views".into(), m));
        }
        if !fails.is_empty() {
            // the model follows the implementation where they disagree, so that the rest of the
            // history is still compared (each failure is reported once, at the op that caused it)
            resync(&mut model, &planes);
            let fatal = fails.iter().any(|f| f.0.starts_with("C01/"));
            for f in fails {
                if !out.fails.iter().any(|g| g.0 == f.0) {
                    out.fails.push(f);
                }
            }
            if fatal || out.fails.len() > 12 {
                break;
            }
        }
    }
    out.planes = planes;
    out
}

/// make the model agree with the implementation on everything the next ops depend on
fn resync(model: &mut Model, planes: &Airplanes) {
    let keys: Vec<u32> = planes.keys().map(icao_u).collect();
    model.recs.retain(|k, _| keys.contains(k));
    for (k, st) in planes.iter() {
        let rec = model.recs.entry(icao_u(k)).or_default();
        rec.count = st.num_messages as u32;
        let c = &st.coords;
        let p = c.position.map(|p| (p.latitude, p.longitude));
        if rec.position.map(|a| p.map(|b| !pos_eq(a, b)).unwrap_or(true)).unwrap_or(p.is_some()) {
            rec.position = p;
        }
        for i in 0..2 {
            match (&rec.slots[i], &c.altitudes[i]) {
                (_, None) => rec.slots[i] = None,
                (Some(e), Some(a)) if e.yz as u64 == a.lat_cpr as u64 && e.xz as u64 == a.lon_cpr as u64 => {}
                (_, Some(a)) => rec.slots[i] = Some(PosRep { yz: a.lat_cpr as u32, xz: a.lon_cpr as u32, alt: a.alt.map(|x| x as i64), alt_code: 0 }),
            }
        }
        // latest-wins attributes: adopt what the implementation holds
        if let (Some(h), Some(sp), Some(vr)) = (st.heading, st.speed, st.vert_speed) {
            rec.velocity = Some((h as f64, sp as f64, vr as i64));
        } else {
            rec.velocity = None;
        }
        rec.callsign = st.callsign.clone();
        // the track history is rebuilt from the implementation's positioned entries
        rec.history = st.track.as_ref().map(|t| t.iter().filter_map(|e| e.position.map(|p| ((p.latitude, p.longitude), false))).collect()).unwrap_or_default();
    }
}

#[allow(clippy::too_many_arguments)]
fn step_model(model: &mut Model, b: &Built, added: Added, planes: &Airplanes, rx: (f64, f64), range: f64, fails: &mut Vec<Fail>, out: &mut RunOut, ever: &mut std::collections::BTreeSet<u32>) {
    let key = format!("{:06x}", b.addr);
    let was_tracked = model.recs.contains_key(&b.addr);
    if (added == Added::Yes) == was_tracked {
        fails.push(("C12/added".into(), format!("frame from {key} reported added={:?} although the address was {}tracked before it", added, if was_tracked { "" } else { "not " })));
    }
    if was_tracked && added == Added::Yes {
        // only expiry removes a record: an aircraft that was never silent for the threshold is not new
        fails.push(("C15/added_without_expiry".into(), format!("{key} is tracked and has not expired, but its frame is reported as newly added")));
    }
    if !was_tracked && ever.contains(&b.addr) {
        out.readds += 1;
        if added != Added::Yes {
            fails.push(("C15/readd_not_reported".into(), format!("{key} had been removed by expiry and is heard again, but the frame is reported added={added:?}")));
        }
    }
    ever.insert(b.addr);
    let rec = model.recs.entry(b.addr).or_default();
    rec.count += 1;
    rec.age_half_s = 0;
    // key set
    // (as sets: in which order the tracker enumerates its records is not part of the property)
    let mut got: Vec<u32> = planes.keys().map(icao_u).collect();
    got.sort_unstable();
    let want: Vec<u32> = model.recs.keys().copied().collect();
    if got != want {
        fails.push(("C12/keys".into(), format!("tracked addresses {:?}, expected {:?} after a frame announcing {key}", got.iter().map(|x| format!("{x:06x}")).collect::<Vec<_>>(), want.iter().map(|x| format!("{x:06x}")).collect::<Vec<_>>())));
        return;
    }
    let rec = model.recs.get_mut(&b.addr).unwrap();
    let st = planes.get(icao(b.addr)).unwrap();
    if st.num_messages as u64 != rec.count as u64 {
        fails.push(("C12/num_messages".into(), format!("{key}: num_messages {} after {} squitters since it was added", st.num_messages, rec.count)));
    }
    if !was_tracked && rec.count == 1 {
        // a (re)added record starts empty apart from what this frame carries
        let fresh = st.callsign.is_none() || b.ident_raw.is_some();
        let fresh2 = st.coords.position.is_none() && st.track.as_ref().map(|t| t.iter().all(|c| c.position.is_none())).unwrap_or(true);
        let no_velocity = st.heading.is_none() && st.speed.is_none() && st.vert_speed.is_none();
        if !(fresh && fresh2 && (no_velocity || b.velocity.is_some())) {
            fails.push(("C15/readd_not_empty".into(), format!("{key}: newly added record is not empty: callsign {:?}, position {:?}, heading / speed / vertical rate {:?} / {:?} / {:?}", st.callsign, st.coords.position, st.heading, st.speed, st.vert_speed)));
        }
    }
    if let Some(raw) = &b.ident_raw {
        rec.callsign = Some(raw.clone());
    }
    if let Some(Some(v)) = &b.velocity {
        rec.velocity = Some(*v);
    }
    // latest-wins attributes
    match (&rec.callsign, &st.callsign) {
        (None, None) => {}
        (Some(e), Some(a)) if refdec::callsign_ok(e, a) => {}
        (e, a) => fails.push(("C14/callsign".into(), format!("{key}: callsign {a:?}, the latest identification carried {e:?}"))),
    }
    match (rec.velocity, st.heading, st.speed, st.vert_speed) {
        (None, None, None, None) => {}
        (Some((h, sp, vr)), Some(ah), Some(asp), Some(avr)) => {
            if (ah as f64 - h).abs() > 1e-3 {
                fails.push(("C14/heading".into(), format!("{key}: heading {ah}, the latest velocity report gives {h}")));
            }
            if (asp - sp as f32).abs() > 1e-3 * (sp as f32).max(1.0) {
                fails.push(("C14/speed".into(), format!("{key}: speed {asp}, the latest velocity report gives {sp}")));
            }
            if avr as i64 != vr {
                fails.push(("C14/vert_speed".into(), format!("{key}: vertical rate {avr}, the latest velocity report gives {vr}")));
            }
        }
        (e, h, sp, vr) => fails.push(("C14/velocity_presence".into(), format!("{key}: heading/speed/rate = {h:?}/{sp:?}/{vr:?}, model {e:?}"))),
    }
    // position logic
    if let Some((odd, rep)) = &b.position {
        rec.slots[*odd as usize] = Some(*rep);
        let c = &st.coords;
        let impl_pos = c.position.map(|p| (p.latitude, p.longitude));
        if let (Some(e), Some(o)) = (rec.slots[0], rec.slots[1]) {
            let (ea, oa) = (lib_report(0, &e), lib_report(1, &o));
            // the argument order is not fixed by the statement: either pairing is accepted
            // reference pairing (exact global decode, independent of cpr.rs); where the reference
            // leaves the verdict open (transition latitudes, only the older report out of range)
            // the library's own answer for that order is taken
            let lib = [cpr::get_position((&ea, &oa)).map(|p| (p.latitude, p.longitude)), cpr::get_position((&oa, &ea)).map(|p| (p.latitude, p.longitude))];
            let mut cands: Vec<Option<(f64, f64)>> = vec![];
            for (k, latest) in [1u32, 0].iter().enumerate() {
                use crate::refcpr::RefDecode;
                let g = 1e-7;
                let c = match refcpr::decode(e.yz, e.xz, o.yz, o.xz, *latest) {
                    RefDecode::Pos { lat, lon, rlat_e, rlat_o } => {
                        if refcpr::near_transition(rlat_e) < g || refcpr::near_transition(rlat_o) < g {
                            lib[k]
                        } else {
                            Some((lat, lon))
                        }
                    }
                    RefDecode::ZoneMismatch { rlat_e, rlat_o } => {
                        if refcpr::near_transition(rlat_e) < g || refcpr::near_transition(rlat_o) < g {
                            lib[k]
                        } else {
                            None
                        }
                    }
                    RefDecode::LatOutOfRange => None,
                    RefDecode::OtherLatOutOfRange => lib[k],
                };
                cands.push(c);
            }
            let mut verdicts: Vec<(&str, Option<(f64, f64)>, Option<f64>, bool)> = vec![]; // (what, position, distance, dontcare)
            for cand in &cands {
                match cand {
                    None => verdicts.push(("nopos", None, None, false)),
                    Some(p) => {
                        let d = refcpr::dist_km(rx, *p);
                        let near_range = (d - range).abs() <= 1e-6 * range.max(1.0);
                        let jump = rec.position.map(|q| refcpr::dist_km(q, *p));
                        let near_jump = jump.map(|j| (j - 100.0).abs() < 1e-4).unwrap_or(false);
                        // a jump measured against an older publication (nothing currently published) is left open
                        let stale_jump = rec.position.is_none() && rec.history.last().map(|(q, _)| refcpr::dist_km(*q, *p) > 100.0).unwrap_or(false);
                        let dc = near_range || near_jump || stale_jump || !d.is_finite();
                        if d > range {
                            verdicts.push(("clear_range", None, None, dc));
                        } else if jump.map(|j| j > 100.0).unwrap_or(false) {
                            verdicts.push(("clear_jump", None, None, dc));
                        } else {
                            verdicts.push(("publish", Some(*p), Some(d), dc));
                        }
                    }
                }
            }
            let slots_now = [c.altitudes[0].is_some(), c.altitudes[1].is_some()];
            let matches = |v: &(&str, Option<(f64, f64)>, Option<f64>, bool)| -> bool {
                match v.0 {
                    "publish" => impl_pos.map(|p| pos_eq(p, v.1.unwrap())).unwrap_or(false) && slots_now == [true, true],
                    "nopos" => impl_pos.is_none(),
                    _ => impl_pos.is_none() && slots_now == [false, false] && c.kilo_distance.is_none(),
                }
            };
            let chosen = verdicts.iter().find(|v| matches(v)).cloned();
            let any_dc = verdicts.iter().any(|v| v.3);
            match chosen {
                Some(v) => {
                    match v.0 {
                        "publish" => {
                            out.publishes += 1;
                            let d = v.2.unwrap();
                            match c.kilo_distance {
                                Some(ad) if close(ad, d, 1e-6) => {}
                                ad => fails.push(("C13/distance".into(), format!("{key}: kilo_distance {ad:?} for position {:?}, great circle from the receiver {:?} is {d} km", v.1.unwrap(), rx))),
                            }
                            let newp = v.1.unwrap();
                            if let Some(old) = rec.position {
                                // a re-publication of the same position may or may not leave an entry
                                rec.history.push((old, !pos_eq(old, newp)));
                            }
                            rec.position = Some(newp);
                        }
                        "nopos" => {
                            if c.kilo_distance.is_some() {
                                fails.push(("C14/distance_without_position".into(), format!("{key}: kilo_distance {:?} although no position is published", c.kilo_distance)));
                            }
                            // the position shown until now is superseded by "no position": it was
                            // published before, so it belongs to the track (only a *clear* wipes)
                            if let Some(old) = rec.position.take() {
                                rec.history.push((old, true));
                            }
                            // whether the stored reports are kept is left open: follow the implementation
                            resync_slots(rec, c);
                        }
                        w => {
                            out.clears += 1;
                            if w == "clear_jump" {
                                out.jump_clears += 1;
                            } else {
                                out.range_clears += 1;
                            }
                            if let Some(old) = rec.position.take() {
                                rec.history.push((old, false));
                            }
                            rec.slots = [None, None];
                        }
                    }
                }
                None if any_dc => {
                    out.dontcare += 1;
                    // threshold too close to call: follow the implementation
                    if let Some(old) = rec.position.take() {
                        rec.history.push((old, false));
                    }
                    rec.position = impl_pos;
                    resync_slots(rec, c);
                }
                None => {
                    let want: Vec<String> = verdicts.iter().map(|v| format!("{}:{:?}", v.0, v.1)).collect();
                    let sig = if verdicts.iter().any(|v| v.0.starts_with("clear")) && (impl_pos.is_some() || slots_now != [false, false] || c.kilo_distance.is_some()) {
                        if impl_pos.is_some() {
                            "C13/published_implausible"
                        } else {
                            "C13/record_not_cleared"
                        }
                    } else if verdicts.iter().any(|v| v.0 == "publish") {
                        "C13/position"
                    } else {
                        "C13/no_position_expected"
                    };
                    fails.push((sig.into(), format!("{key}: after pairing even ({}, {}) and odd ({}, {}): position {impl_pos:?}, distance {:?}, slots kept {slots_now:?}; expected one of {want:?} (receiver {rx:?}, range {range}, previously published {:?})", e.yz, e.xz, o.yz, o.xz, c.kilo_distance, rec.position)));
                    rec.position = impl_pos;
                    resync_slots(rec, c);
                }
            }
        } else {
            // only one slot filled: nothing can be published
            if impl_pos.is_some() && rec.position.is_none() {
                fails.push(("C13/position_from_single_report".into(), format!("{key}: a position {impl_pos:?} is published with only one parity received since the last clear")));
            }
        }
        // stored reports are the most recent ones
        for p in 0..2 {
            match (&rec.slots[p], &c.altitudes[p]) {
                (None, None) => {}
                (Some(e), Some(a)) if e.yz as u64 == a.lat_cpr as u64 && e.xz as u64 == a.lon_cpr as u64 => {
                    // the same coordinates: it must still be the most recent report, i.e. carry its altitude
                    let want = e.alt.filter(|v| *v != 0);
                    let got = a.alt.map(|v| v as i64).filter(|v| *v != 0);
                    if want != got {
                        let m = format!("{key}: stored {} report carries altitude {:?}, the most recent report with these coordinates carried {:?}", if p == 0 { "even" } else { "odd" }, a.alt, e.alt);
                        fails.push(("C13/stored_report_altitude".into(), m.clone()));
                        fails.push(("C14/report_altitude".into(), m));
                    }
                }
                (e, a) => fails.push(("C13/stored_report".into(), format!("{key}: stored {} report is {:?}, the most recent one received since the last clear is {:?}", if p == 0 { "even" } else { "odd" }, a.map(|a| (a.lat_cpr, a.lon_cpr)), e.map(|e| (e.yz, e.xz))))),
            }
        }
    }
}

fn resync_slots(rec: &mut Rec, c: &rsadsb_common::AirplaneCoor) {
    for p in 0..2 {
        if c.altitudes[p].is_none() {
            rec.slots[p] = None;
        }
    }
}

fn invariants(planes: &Airplanes, model: &Model, fails: &mut Vec<Fail>) {
    let mut with_pos = vec![];
    let mut detail_lines = 0;
    for (k, st) in planes.iter() {
        let key = k.to_string();
        let c = &st.coords;
        if c.position.is_some() != c.kilo_distance.is_some() {
            fails.push(("C14/distance_iff_position".into(), format!("{key}: position {:?} but kilo_distance {:?}", c.position, c.kilo_distance)));
        }
        if let Some(p) = c.position {
            with_pos.push((*k, p));
        }
        let det = planes.aircraft_details(*k);
        let alts: Vec<u16> = c.altitudes.iter().flatten().filter_map(|a| a.alt).collect();
        let both_alt = c.altitudes.iter().all(|a| a.map(|a| a.alt.is_some()).unwrap_or(false));
        match &det {
            Some(d) => {
                detail_lines += 1;
                if c.position.is_none() || c.kilo_distance.is_none() {
                    fails.push(("C14/details_without_position".into(), format!("{key}: details available without position/distance")));
                } else {
                    let p = c.position.unwrap();
                    if d.position != p || Some(d.kilo_distance) != c.kilo_distance || d.heading != st.heading {
                        fails.push(("C14/details_differ".into(), format!("{key}: details {d:?} differ from the record")));
                    }
                }
                if !alts.contains(&d.altitude) {
                    fails.push(("C14/details_altitude".into(), format!("{key}: details altitude {} is not the altitude of a stored report {alts:?}", d.altitude)));
                }
            }
            None => {
                if c.position.is_some() && c.kilo_distance.is_some() && both_alt {
                    fails.push(("C14/details_missing".into(), format!("{key}: position, distance and both report altitudes present but no details")));
                }
            }
        }
        // track: positioned entries = earlier publications, in order (consecutive duplicates collapsed)
        if let Some(rec) = model.recs.get(&icao_u(k)) {
            let mut actual: Vec<(f64, f64)> = vec![];
            if let Some(t) = &st.track {
                for e in t {
                    if let Some(p) = e.position {
                        actual.push((p.latitude, p.longitude));
                    }
                }
            }
            // every supersession is an entry of the model's history: mandatory when the position
            // changed or disappeared, optional when the same position was published again
            let hist: Vec<((f64, f64), bool)> = rec.history.clone();
            // actual must be a subsequence of the history that contains every mandatory entry
            // (dynamic programme: reach[j] = the first i history entries can be explained with j actual entries)
            let (n, m) = (hist.len(), actual.len());
            let mut reach = vec![false; m + 1];
            reach[0] = true;
            for i in 0..n {
                let (h, must) = hist[i];
                let mut next = vec![false; m + 1];
                for j in 0..=m {
                    if !reach[j] {
                        continue;
                    }
                    if !must {
                        next[j] = true; // an optional entry may be absent
                    }
                    if j < m && pos_eq(h, actual[j]) {
                        next[j + 1] = true;
                    }
                }
                reach = next;
            }
            let ok = reach[m];
            if !ok {
                fails.push(("C14/track".into(), format!("{key}: positioned track entries {actual:?} are not the earlier publications {:?} (position, mandatory)", rec.history)));
            }
        }
    }
    let ap = planes.all_position();
    if ap.len() != with_pos.len() || ap.iter().zip(with_pos.iter()).any(|(a, b)| a.0 != b.0 || a.1 != b.1) {
        let m = format!("all_position() = {:?}, records with a position: {:?}", ap.iter().map(|x| x.0.to_string()).collect::<Vec<_>>(), with_pos.iter().map(|x| x.0.to_string()).collect::<Vec<_>>());
        fails.push(("C14/all_position".into(), m.clone()));
        // the position list is where positions are published to the clients: C13's "published"
        fails.push(("C13/published_list".into(), m));
    }
    let lines = planes.to_string().lines().count();
    if lines != detail_lines {
        fails.push(("C14/to_string".into(), format!("Airplanes::to_string() has {lines} lines, {detail_lines} aircraft have details")));
    }
}

// ---------------------------------------------------------------------------------------------
// property drivers
// ---------------------------------------------------------------------------------------------

fn scenario_json(s: &Scenario) -> Value {
    json!({"kind":"history","scenario": format!("{s:?}"), "rx": s.rx, "range": s.range, "start": s.start, "isolate": s.isolate, "snap": s.snap, "ops": s.ops.iter().map(op_json).collect::<Vec<_>>()})
}

fn op_json(o: &Op) -> Value {
    match o {
        Op::Squitter { ac, df18, kind } => {
            let k = match kind {
                Kind::Ident { codes, tc } => json!({"ident": codes, "tc": tc}),
                Kind::Velocity { st, ew, ew_sign, ns, ns_sign, vr, vr_sign } => json!({"velocity": [st, ew, ew_sign, ns, ns_sign, vr, vr_sign]}),
                Kind::Position { odd, tc, alt, src } => {
                    let s = match src {
                        PosSrc::Flight { bearing, d_centinm } => json!({"flight": [bearing, d_centinm]}),
                        PosSrc::Jump { bearing, km } => json!({"jump": [bearing, km]}),
                        PosSrc::AtRange { bearing, permille } => json!({"at_range": [bearing, permille]}),
                        PosSrc::Raw { yz, xz } => json!({"raw": [yz, xz]}),
                        PosSrc::Same => json!("same"),
                        PosSrc::Again => json!("again"),
                        PosSrc::Twin => json!("twin"),
                        PosSrc::Tie { t, k } => json!({"tie": [t, k]}),
                    };
                    json!({"position": {"odd": odd, "tc": tc, "alt": alt, "src": s}})
                }
                Kind::OtherMe { tc, fill } => json!({"other_me": [tc, fill]}),
            };
            json!({"squitter": {"ac": ac, "df18": df18, "kind": k}})
        }
        Op::OtherFormat { ac, df, fill } => json!({"other_format": [ac, df, fill]}),
        Op::Advance { half_s } => json!({"advance_half_s": half_s}),
        Op::Prune { t } => json!({"prune": t}),
        Op::MoveRx { site } => json!({"move_rx": site}),
    }
}

fn op_from(v: &Value) -> Option<Op> {
    let u = |x: &Value| x.as_u64().unwrap_or(0);
    if let Some(s) = v.get("squitter") {
        let k = &s["kind"];
        let kind = if let Some(c) = k.get("ident") {
            let a = c.as_array()?;
            let mut codes = [0u8; 8];
            for i in 0..8 {
                codes[i] = u(&a[i]) as u8;
            }
            Kind::Ident { codes, tc: u(&k["tc"]) as u8 }
        } else if let Some(a) = k.get("velocity").and_then(|x| x.as_array()) {
            Kind::Velocity { st: u(&a[0]) as u8, ew: u(&a[1]) as u16, ew_sign: a[2].as_bool()?, ns: u(&a[3]) as u16, ns_sign: a[4].as_bool()?, vr: u(&a[5]) as u16, vr_sign: a[6].as_bool()? }
        } else if let Some(p) = k.get("position") {
            let s = &p["src"];
            let src = if let Some(a) = s.get("flight").and_then(|x| x.as_array()) {
                PosSrc::Flight { bearing: u(&a[0]) as u16, d_centinm: u(&a[1]) as u16 }
            } else if let Some(a) = s.get("jump").and_then(|x| x.as_array()) {
                PosSrc::Jump { bearing: u(&a[0]) as u16, km: u(&a[1]) as u16 }
            } else if let Some(a) = s.get("at_range").and_then(|x| x.as_array()) {
                PosSrc::AtRange { bearing: u(&a[0]) as u16, permille: u(&a[1]) as u16 }
            } else if let Some(a) = s.get("raw").and_then(|x| x.as_array()) {
                PosSrc::Raw { yz: u(&a[0]) as u32, xz: u(&a[1]) as u32 }
            } else if let Some(a) = s.get("tie").and_then(|x| x.as_array()) {
                PosSrc::Tie { t: u(&a[0]) as u8, k: u(&a[1]) as u16 }
            } else if s.as_str() == Some("twin") {
                PosSrc::Twin
            } else if s.as_str() == Some("again") {
                PosSrc::Again
            } else {
                PosSrc::Same
            };
            Kind::Position { odd: p["odd"].as_bool()?, tc: u(&p["tc"]) as u8, alt: u(&p["alt"]) as u16, src }
        } else {
            let a = k.get("other_me")?.as_array()?;
            Kind::OtherMe { tc: u(&a[0]) as u8, fill: u(&a[1]) }
        };
        return Some(Op::Squitter { ac: u(&s["ac"]) as u8, df18: s["df18"].as_u64().map(|x| x as u8), kind });
    }
    if let Some(a) = v.get("other_format").and_then(|x| x.as_array()) {
        return Some(Op::OtherFormat { ac: u(&a[0]) as u8, df: u(&a[1]) as u8, fill: u(&a[2]) });
    }
    if let Some(h) = v.get("advance_half_s") {
        return Some(Op::Advance { half_s: u(h) as u16 });
    }
    if let Some(x) = v.get("move_rx") {
        return Some(Op::MoveRx { site: u(x) as u8 });
    }
    v.get("prune").map(|t| Op::Prune { t: u(t) })
}

fn scenario_from(v: &Value) -> Option<Scenario> {
    let start = v.get("start")?.as_array()?.iter().map(|p| (p[0].as_u64().unwrap_or(0) as u16, p[1].as_u64().unwrap_or(0) as u16)).collect();
    let ops = v.get("ops")?.as_array()?.iter().filter_map(op_from).collect();
    Some(Scenario { rx: v["rx"].as_u64()? as u8, range: v["range"].as_u64()? as u8, start, ops, isolate: v["isolate"].as_u64().unwrap_or(0) as u8, snap: v.get("snap").and_then(|x| x.as_u64()).unwrap_or(0) as u8 })
}

/// all failures of one scenario incl. the isolation relation
pub fn eval_scenario(s: &Scenario) -> (Vec<Fail>, RunOut) {
    let t0 = std::time::Instant::now();
    let mut out = run_history(s, None, false);
    let mut fails = out.fails.clone();
    if fails.is_empty() && !s.start.is_empty() {
        // isolation: the record of one aircraft equals its record under the history restricted to its own frames
        let a = s.isolate as usize % s.start.len();
        let solo = run_history(s, Some(a as u8), false);
        if solo.fails.is_empty() {
            let key = format!("{:06x}", ADDR[a]);
            let full = dump(&out.planes);
            let alone = dump(&solo.planes);
            if full["records"].get(&key) != alone["records"].get(&key) {
                fails.push(("C12/isolation".into(), format!("record of {key} differs when the traffic of other aircraft is removed: {} vs {}", full["records"].get(&key).map(|x| x.to_string()).unwrap_or_default(), alone["records"].get(&key).map(|x| x.to_string()).unwrap_or_default())));
            }
        }
    }
    if t0.elapsed().as_millis() > 300 {
        // too slow for the 0.5 s age margin: inconclusive for C15, drop time-related failures
        fails.retain(|f| !f.0.starts_with("C15"));
        out.dontcare += 1;
    }
    (fails, out)
}

pub fn replay(pid: &str, v: &Value) -> Vec<Failure> {
    if v.get("kind").and_then(|k| k.as_str()) == Some("crowd") {
        let n = v["n"].as_u64().unwrap_or(700) as usize;
        let rounds = v["rounds"].as_u64().unwrap_or(2) as usize;
        return crowd_check(v["seed"].as_u64().unwrap_or(1), n, rounds).into_iter().filter(|f| f.0.starts_with(pid)).map(|(sig, msg)| Failure { sig, msg, replay: v.clone() }).collect();
    }
    if v.get("kind").and_then(|k| k.as_str()) == Some("range_boundary") {
        return range_boundary_check().into_iter().filter(|f| f.0.starts_with(pid)).map(|(sig, msg)| Failure { sig, msg, replay: v.clone() }).collect();
    }
    if v.get("kind").and_then(|k| k.as_str()) == Some("long_flight") {
        return long_flight_check(v["n"].as_u64().unwrap_or(9000) as usize).into_iter().filter(|f| f.0.starts_with(pid) || f.0.starts_with("C01")).map(|(sig, msg)| Failure { sig, msg, replay: v.clone() }).collect();
    }
    if v.get("kind").and_then(|k| k.as_str()) == Some("thin_traffic") {
        return thin_traffic_check().into_iter().filter(|f| f.0.starts_with(pid)).map(|(sig, msg)| Failure { sig, msg, replay: v.clone() }).collect();
    }
    if v.get("kind").and_then(|k| k.as_str()) == Some("crowd_expiry") {
        return crowd_expiry_check(v["n"].as_u64().unwrap_or(300) as usize).into_iter().map(|(sig, msg)| Failure { sig, msg, replay: v.clone() }).collect();
    }
    if v.get("kind").and_then(|k| k.as_str()) == Some("crowd_positions") {
        return crowd_positions_check(v["seed"].as_u64().unwrap_or(1), v["n"].as_u64().unwrap_or(900) as usize).into_iter().filter(|f| f.0.starts_with(pid)).map(|(sig, msg)| Failure { sig, msg, replay: v.clone() }).collect();
    }
    if v.get("kind").and_then(|k| k.as_str()) == Some("long_count") {
        return long_count_check(v["seed"].as_u64().unwrap_or(1), v["n"].as_u64().unwrap_or(70_000) as usize).into_iter().filter(|f| f.0.starts_with(pid)).map(|(sig, msg)| Failure { sig, msg, replay: v.clone() }).collect();
    }
    let Some(s) = scenario_from(v) else { return vec![] };
    if v.get("kind").and_then(|k| k.as_str()) == Some("history_nostd") && pid == "C14" {
        let mut worker = crate::configs::Worker::spawn();
        return nostd_invariants(&mut worker, &[s]).into_iter().map(|((sig, msg), _)| Failure { sig, msg, replay: v.clone() }).collect();
    }
    if v.get("kind").and_then(|k| k.as_str()) == Some("history_nostd") {
        let mut worker = crate::configs::Worker::spawn();
        return nostd_eval(&mut worker, &[s]).into_iter().filter(|f| f.0 .0.starts_with(pid)).map(|((sig, msg), _)| Failure { sig, msg, replay: v.clone() }).collect();
    }
    let (fails, _) = eval_scenario(&s);
    fails.into_iter().filter(|f| f.0.starts_with(pid) || f.0.starts_with("C01")).map(|(sig, msg)| Failure { sig, msg, replay: v.clone() }).collect()
}

/// C12 with a crowd: `n` distinct addresses heard in a generated order, several rounds; nobody may
/// leave, every first frame is `added`, counts are exact.  (Histories only use up to 4 aircraft.)
pub fn crowd_check(seed: u64, n: usize, rounds: usize) -> Vec<Fail> {
    use crate::core::RngExt;
    let mut rng = make_rng(seed, 0xc0de, n as u64);
    let mut planes = Airplanes::new();
    let mut counts: BTreeMap<u32, u32> = BTreeMap::new();
    let mut fails = vec![];
    // (every third address belongs to one block of consecutive addresses: a fleet)
    // (all distinct as 24-bit addresses, whatever n is)
    let addrs: Vec<u32> = {
        let mut seen = std::collections::BTreeSet::new();
        let mut v = Vec::with_capacity(n);
        let mut i = 0u32;
        while v.len() < n {
            // a block of consecutive addresses, a block that differs in the first octet only, one that differs in the middle octet only, and a spread
            let a = (match i % 6 {
                0 | 3 => 0x300000 + i,
                1 if i < 6 * 250 => ((i / 6 + 1) << 16) | 0x1234,
                2 if i < 6 * 250 => 0x550077 | ((i / 6 + 1) << 8),
                _ => 0x100000u32.wrapping_add(i.wrapping_mul(0x1003)).wrapping_add(i % 7),
            }) & 0xff_ffff;
            if seen.insert(a) {
                v.push(a);
            }
            i += 1;
        }
        v
    };
    for round in 0..rounds {
        for _ in 0..n {
            let a = if round == 0 { addrs[counts.len().min(n - 1)] } else { *rng.pick(&addrs) };
            let mut me = [0u8; 7];
            let tc = *rng.pick(&[4u8, 19, 11, 31, 28, 0, 7, 29]);
            set(&mut me, 1, 5, tc as u64);
            if tc == 4 {
                for i in 0..8 {
                    set(&mut me, 9 + 6 * i, 6, 1 + rng.below(26));
                }
            }
            if tc == 31 {
                set(&mut me, 6, 3, 2 + rng.below(6));
            }
            let df18 = rng.chance(1, 4);
            let bytes = squitter(if df18 { 18 } else { 17 }, 5, a, &me);
            let Ok(frame) = Frame::from_bytes(&bytes) else { continue };
            let was = counts.contains_key(&a);
            let added = planes.action(frame, (52.0, 4.0), 500.0);
            *counts.entry(a).or_insert(0) += 1;
            if (added == Added::Yes) == was {
                fails.push(("C12/added/crowd".to_string(), format!("with {} aircraft tracked, a frame from {a:06x} (tracked before: {was}) is reported added={added:?}", counts.len())));
            }
            if planes.len() != counts.len() {
                fails.push(("C12/keys/crowd".to_string(), format!("{} addresses heard and none expired, but {} are tracked (after a frame from {a:06x})", counts.len(), planes.len())));
                return fails;
            }
            match planes.get(icao(a)) {
                Some(st) if st.num_messages as u64 == counts[&a] as u64 => {}
                Some(st) => fails.push(("C12/num_messages/crowd".to_string(), format!("{a:06x}: num_messages {} after {} squitters ({} aircraft tracked)", st.num_messages, counts[&a], counts.len()))),
                None => fails.push(("C12/keys/crowd".to_string(), format!("{a:06x} was just heard but is not tracked ({} aircraft)", counts.len()))),
            }
            if fails.len() > 3 {
                return fails;
            }
        }
    }
    fails
}

/// C13 / C14 with a crowd: `n` aircraft, each at its own place around the receiver, each heard
/// with an even and an odd report (some with further reports a few hundred metres on).  Every one
/// must be published at its own place with its own distance; the position list and the details
/// hold exactly these aircraft.  (Histories only use up to 4 aircraft.)
pub fn crowd_positions_check(seed: u64, n: usize) -> Vec<Fail> {
    use crate::core::RngExt;
    let mut rng = make_rng(seed, 0xc0de2, n as u64);
    let rx = (52.0, 4.0);
    let mut planes = Airplanes::new();
    let mut fails = vec![];
    let mut truth: BTreeMap<u32, (f64, f64, u16)> = BTreeMap::new();
    let mut first_place: BTreeMap<u32, (f64, f64)> = BTreeMap::new();
    // distinct 24-bit addresses for every n up to 2^20: a block of consecutive ones and a spread
    let addr = |i: usize| if i % 2 == 0 { 0x400000 + i as u32 } else { 0x800000 + (i as u32) * 0x7 + 1 };
    let report = |a: u32, p: (f64, f64), parity: u32, altc: u16, df18: bool| {
        let e = refcpr::encode(p.0, p.1, parity);
        let mut me = [0u8; 7];
        set(&mut me, 1, 5, 11);
        set(&mut me, 9, 12, altc as u64);
        set(&mut me, 22, 1, parity as u64);
        set(&mut me, 23, 17, e.0 as u64);
        set(&mut me, 40, 17, e.1 as u64);
        squitter(if df18 { 18 } else { 17 }, 5, a, &me)
    };
    // interleaved: all even reports first, then the odd ones in another order, then a few moves
    let order: Vec<usize> = (0..n).collect();
    for round in 0..3 {
        for k in 0..n {
            let i = if round == 1 { order[(k * 7 + 3) % n] } else { order[k] };
            if round == 2 && i % 5 != 0 {
                continue;
            }
            let a = addr(i);
            let base = refcpr::destination(rx, (i as f64 * 11.7) % 360.0, 2.0 + (i as f64 * 0.61) % 430.0);
            let p = if round == 2 { refcpr::destination(base, 90.0, 0.4) } else { base };
            let n25 = 60 + (i as u16 % 1500);
            let altc = ((n25 & 0x7f0) << 1) | 0x10 | (n25 & 0xf);
            let parity = if round == 2 { rng.below(2) as u32 } else { round as u32 };
            let bytes = report(a, p, parity, altc, i % 9 == 4);
            let Ok(frame) = Frame::from_bytes(&bytes) else { continue };
            planes.action(frame, rx, 500.0);
            truth.insert(a, (p.0, p.1, (n25 as i32 * 25 - 1000) as u16));
            if round < 2 {
                first_place.insert(a, base);
            }
        }
    }
    let listed: BTreeMap<u32, (f64, f64)> = planes.all_position().into_iter().map(|(k, p)| (icao_u(&k), (p.latitude, p.longitude))).collect();
    if listed.len() != n || planes.len() != n {
        fails.push(("C14/all_position/crowd".to_string(), format!("{n} aircraft were each heard with an even and an odd report inside the range; {} are tracked, the position list holds {}", planes.len(), listed.len())));
    }
    for (a, (lat, lon, alt)) in &truth {
        let Some(st) = planes.get(icao(*a)) else {
            fails.push(("C12/keys/crowd".to_string(), format!("{a:06x} was heard but is not tracked")));
            break;
        };
        match (st.coords.position, st.coords.kilo_distance, listed.get(a)) {
            (Some(p), Some(d), Some(l)) => {
                // (either of the two paired reports may be taken as the more recent one: the place
                // of the last report or of the one before it)
                let off = refcpr::dist_km((p.latitude, p.longitude), (*lat, *lon)).min(first_place.get(a).map(|b| refcpr::dist_km((p.latitude, p.longitude), *b)).unwrap_or(f64::MAX));
                let want_d = refcpr::dist_km(rx, (p.latitude, p.longitude));
                if off > 0.05 {
                    fails.push(("C13/position/crowd".to_string(), format!("{a:06x} is at ({lat:.5}, {lon:.5}); among {n} aircraft it is published at ({:.5}, {:.5}), {off:.2} km away", p.latitude, p.longitude)));
                }
                if (d - want_d).abs() > 1e-6 * want_d.max(1.0) {
                    fails.push(("C13/distance/crowd".to_string(), format!("{a:06x}: distance {d} km, the great-circle distance of its published position is {want_d} km")));
                }
                if (l.0, l.1) != (p.latitude, p.longitude) {
                    fails.push(("C14/all_position/crowd".to_string(), format!("{a:06x}: the position list gives {l:?}, the record {:?}", (p.latitude, p.longitude))));
                }
                match planes.aircraft_details(icao(*a)) {
                    Some(det) if det.position == p && det.kilo_distance == d && det.altitude as u64 == *alt as u64 => {}
                    other => fails.push(("C14/details/crowd".to_string(), format!("{a:06x}: details {:?}, the record has position {:?}, distance {d}, altitude {alt}", other.map(|x| (x.position, x.kilo_distance, x.altitude)), p))),
                }
            }
            other => fails.push(("C13/position/crowd".to_string(), format!("{a:06x} sent an even and an odd report from ({lat:.5}, {lon:.5}) inside the range, but position / distance / list entry are {:?}", (other.0.map(|p| (p.latitude, p.longitude)), other.1, other.2)))),
        }
        if fails.len() > 4 {
            break;
        }
    }
    fails
}

/// C13 at the exact range limit: "within the configured maximum range" includes a fix whose
/// distance equals the limit bit for bit.  The limit is set to the distance the tracker itself
/// reports for a fix (and to the two neighbouring floats), for several receivers.
pub fn range_boundary_check() -> Vec<Fail> {
    let mut fails = vec![];
    for (ri, rx) in RX.iter().enumerate() {
        for (bi, (bearing, km)) in [(40.0, 37.0), (200.0, 250.0), (310.0, 3.5)].iter().enumerate() {
            let p = refcpr::destination(*rx, *bearing, *km);
            if p.0.abs() > 89.0 {
                continue;
            }
            let frames: Vec<Vec<u8>> = (0..2u32)
                .map(|parity| {
                    let e = refcpr::encode(p.0, p.1, parity);
                    let mut me = [0u8; 7];
                    set(&mut me, 1, 5, 11);
                    set(&mut me, 9, 12, 0xb50 | 0x10);
                    set(&mut me, 22, 1, parity as u64);
                    set(&mut me, 23, 17, e.0 as u64);
                    set(&mut me, 40, 17, e.1 as u64);
                    squitter(17, 5, 0xabc001, &me)
                })
                .collect();
            let feed = |range: f64| -> Option<f64> {
                let mut planes = Airplanes::new();
                for b in &frames {
                    if let Ok(f) = Frame::from_bytes(b) {
                        planes.action(f, *rx, range);
                    }
                }
                planes.get(icao(0xabc001)).and_then(|s| s.coords.position.and(s.coords.kilo_distance))
            };
            let Some(d) = feed(20_000.0) else { continue };
            let up = f64::from_bits(d.to_bits() + 1);
            let down = f64::from_bits(d.to_bits() - 1);
            for (limit, must) in [(d, true), (up, true), (down, false)] {
                let got = feed(limit).is_some();
                if got != must {
                    fails.push(("C13/range_boundary".to_string(), format!("receiver {rx:?} (site {ri}, fix {bi}): the fix is {d} km away; with max range {limit} it is {}, expected {}", if got { "published" } else { "not published" }, if must { "published (within the range: distance <= limit)" } else { "cleared (beyond the range)" })));
                }
            }
        }
    }
    fails
}

/// One aircraft on a long flight (a holding circle next to the receiver, 150 m per report, even and
/// odd reports alternating, `n` reports): nothing panics (C01), the positioned entries of its track
/// are exactly the positions published before the current one, in order (C14), and an expiry
/// call that it survives leaves its record untouched (C15).  Histories only reach 60 reports.
/// the frames of the long flight (holding circle, 150 m per report, even / odd alternating)
pub fn flight_frames(n: usize) -> Vec<Vec<u8>> {
    let rx = (52.0, 4.0);
    let centre = refcpr::destination(rx, 70.0, 60.0);
    (0..n)
        .map(|i| {
            let p = refcpr::destination(centre, (i as f64 * 0.2865) % 360.0, 30.0);
            let e = refcpr::encode(p.0, p.1, (i % 2) as u32);
            let mut me = [0u8; 7];
            set(&mut me, 1, 5, 11);
            set(&mut me, 9, 12, 0xb50 | 0x10);
            set(&mut me, 22, 1, (i % 2) as u64);
            set(&mut me, 23, 17, e.0 as u64);
            set(&mut me, 40, 17, e.1 as u64);
            squitter(if i % 5 == 4 { 18 } else { 17 }, 5, 0xabc001, &me)
        })
        .collect()
}

pub fn long_flight_check(n: usize) -> Vec<Fail> {
    let rx = (52.0, 4.0);
    let a = 0xabc001u32;
    let centre = refcpr::destination(rx, 70.0, 60.0);
    let mut planes = Airplanes::new();
    let mut published: Vec<(f64, f64)> = vec![];
    let mut fails = vec![];
    let track_of = |planes: &Airplanes| -> Vec<(f64, f64)> { planes.get(icao(a)).and_then(|s| s.track.as_ref().map(|t| t.iter().filter_map(|e| e.position.map(|p| (p.latitude, p.longitude))).collect())).unwrap_or_default() };
    for i in 0..n {
        let p = refcpr::destination(centre, (i as f64 * 0.2865) % 360.0, 30.0); // 150 m of arc per step
        let e = refcpr::encode(p.0, p.1, (i % 2) as u32);
        let mut me = [0u8; 7];
        set(&mut me, 1, 5, 11);
        set(&mut me, 9, 12, 0xb50 | 0x10);
        set(&mut me, 22, 1, (i % 2) as u64);
        set(&mut me, 23, 17, e.0 as u64);
        set(&mut me, 40, 17, e.1 as u64);
        let bytes = squitter(if i % 5 == 4 { 18 } else { 17 }, 5, a, &me);
        let Ok(frame) = Frame::from_bytes(&bytes) else { continue };
        if catch_unwind(AssertUnwindSafe(|| planes.action(frame, rx, 500.0))).is_err() {
            fails.push(("C01/panic/tracker/long_flight".to_string(), format!("report {i} of one aircraft's flight: Airplanes::action panicked at {}", last_panic())));
            return fails;
        }
        if let Some(pos) = planes.get(icao(a)).and_then(|s| s.coords.position) {
            // every report supersedes the record before it (also when the pairing gives the same place again)
            published.push((pos.latitude, pos.longitude));
        }
        let last = i + 1 == n;
        if (i % 499 == 0 || last) && published.len() >= 2 {
            let actual = track_of(&planes);
            let want = &published[..published.len() - 1];
            if actual.len() != want.len() || actual.iter().zip(want.iter()).any(|(x, y)| !pos_eq(*x, *y)) {
                let first = actual.iter().zip(want.iter()).position(|(x, y)| !pos_eq(*x, *y)).unwrap_or(actual.len().min(want.len()));
                fails.push(("C14/track/long_flight".to_string(), format!("after {} reports of one flight the track has {} positioned entries, {} positions were published before the current one; first difference at index {first}", i + 1, actual.len(), want.len())));
                return fails;
            }
        }
        if i % 997 == 500 || last {
            // an expiry call that the aircraft survives
            let before = dump(&planes);
            if catch_unwind(AssertUnwindSafe(|| planes.prune(10_000))).is_err() {
                fails.push(("C01/panic/tracker/long_flight".to_string(), format!("prune after {} reports panicked at {}", i + 1, last_panic())));
                return fails;
            }
            if dump(&planes) != before {
                fails.push(("C15/survivor_changed/long_flight".to_string(), format!("prune(10000) right after report {} changed the record of the aircraft that was just heard (track length before {})", i + 1, before["records"][format!("{a:06x}")]["track"].as_array().map(|t| t.len()).unwrap_or(0))));
                return fails;
            }
        }
    }
    fails
}

/// C15 with a crowd: `n` aircraft, every second one silent for longer than the threshold; one
/// expiry call removes exactly those.
/// The receiver position changes while an aircraft is tracked (radar takes it from gpsd with
/// every fix): an aircraft published near the first site, the receiver moves 100 km, and the
/// next reports put the aircraft on both sides of "100 km from the previous position" while
/// they are well inside a 50 km (and a 500 km) limit around the new receiver position.  Every
/// history goes through the reference model like a generated one.
pub fn moving_receiver_check() -> Vec<(Fail, Scenario)> {
    let mut out = vec![];
    let pos = |odd: bool, src: PosSrc| Op::Squitter { ac: 0, df18: None, kind: Kind::Position { odd, tc: 11, alt: 0x5d0, src } };
    for range in [1u8, 0] {
        // (site 10 is one odd longitude zone east of the first site: an aircraft at the same
        // offset from the new receiver position sends an even report that pairs consistently
        // with its stale odd report - to a place 700 km from the one published before)
        for site in [8u8, 9, 10] {
            for first_odd in [false, true] {
                for bearing in (0u16..360).step_by(30) {
                    for permille in [60u16, 300, 600, 900] {
                        let start_pm = if site == 10 { if range == 1 { permille } else { permille / 10 } } else { 100 };
                        let ops = vec![
                            pos(false, PosSrc::Flight { bearing: 0, d_centinm: 0 }),
                            pos(true, PosSrc::Flight { bearing: 0, d_centinm: 10 }),
                            Op::MoveRx { site },
                            pos(first_odd, PosSrc::AtRange { bearing, permille: if range == 1 { permille } else { permille / 10 } }),
                            pos(!first_odd, PosSrc::Flight { bearing, d_centinm: 20 }),
                            pos(first_odd, PosSrc::Flight { bearing, d_centinm: 20 }),
                            pos(!first_odd, PosSrc::Flight { bearing, d_centinm: 20 }),
                        ];
                        let s = Scenario { rx: 0, range, start: vec![(bearing, start_pm)], ops, isolate: 0, snap: 0 };
                        let (fails, _) = eval_scenario(&s);
                        if let Some(f) = fails.into_iter().next() {
                            out.push((f, s));
                            if out.len() >= 3 {
                                return out;
                            }
                        }
                    }
                }
            }
        }
    }
    out
}

/// Thin traffic in real time (no back-dating): for about 2.6 s aircraft B is heard every 100 ms
/// with `prune(1)` after every frame, aircraft A was heard once at the start, and now and then a
/// third aircraft sends a frame.  B, heard 0.1 s ago, must stay tracked, must never be reported
/// as added again and its count must be the number of its frames; A must be tracked while it has
/// been silent for less than 0.7 s and gone once it has been silent for more than 1.4 s (in
/// between nothing is asserted: the threshold is whole seconds).  Ages come from the harness's
/// own monotonic clock, measured around each call.
pub fn thin_traffic_check() -> Vec<Fail> {
    use std::time::{Duration, Instant};
    let mut fails: Vec<Fail> = vec![];
    let mut planes = Airplanes::new();
    let frame = |addr: u32, k: u64| -> Option<Frame> {
        let mut me = [0u8; 7];
        set(&mut me, 1, 5, 4);
        set(&mut me, 9, 6, 1 + k % 26);
        Frame::from_bytes(&squitter(17, 5, addr, &me)).ok()
    };
    let (a, b, c) = (0x3c0001u32, 0x3c0002u32, 0x3c0003u32);
    let rx = (52.0, 4.0);
    let Some(fa) = frame(a, 0) else { return fails };
    let r = catch_unwind(AssertUnwindSafe(|| {
        planes.action(fa, rx, 500.0);
        let a_heard = Instant::now();
        let mut b_count = 0u64;
        for i in 0..26u64 {
            let Some(fb) = frame(b, i) else { continue };
            let b_heard = Instant::now();
            let added = planes.action(fb, rx, 500.0);
            b_count += 1;
            if i > 0 && added == Added::Yes {
                fails.push(("C12/added/real_time".into(), format!("aircraft heard every 100 ms: frame {i} is reported as newly added")));
                fails.push(("C15/added_without_expiry/real_time".into(), format!("aircraft heard every 100 ms: frame {i} is reported as newly added")));
                break;
            }
            if i % 7 == 3 {
                if let Some(fc) = frame(c, i) {
                    planes.action(fc, rx, 500.0);
                }
            }
            let before = a_heard.elapsed();
            planes.prune(1);
            let after = a_heard.elapsed();
            // (on a machine so loaded that this thread was off the CPU for most of a second
            // between the frame and the expiry call, nothing can be said about this round)
            let stalled = b_heard.elapsed() > Duration::from_millis(600);
            match planes.get(icao(b)) {
                None if stalled => break,
                None => {
                    fails.push(("C12/removed_without_expiry/real_time".into(), format!("prune(1) removed an aircraft heard a moment ago (its frame {i}, one every 100 ms)")));
                    fails.push(("C15/prune_keys/real_time".into(), format!("prune(1) removed an aircraft heard a moment ago (its frame {i}, one every 100 ms)")));
                    break;
                }
                Some(st) if st.num_messages as u64 != b_count => {
                    fails.push(("C12/num_messages/real_time".into(), format!("aircraft heard every 100 ms: count {} after {b_count} frames", st.num_messages)));
                    break;
                }
                _ => {}
            }
            let a_there = planes.get(icao(a)).is_some();
            if a_there && before > Duration::from_millis(1400) {
                fails.push(("C15/prune_keys/real_time".into(), format!("prune(1) kept an aircraft that had been silent for {:.2} s", before.as_secs_f64())));
                break;
            }
            if !a_there && after < Duration::from_millis(700) {
                fails.push(("C15/prune_keys/real_time".into(), format!("prune(1) removed an aircraft that had been silent for only {:.2} s", after.as_secs_f64())));
                fails.push(("C12/removed_without_expiry/real_time".into(), format!("prune(1) removed an aircraft that had been silent for only {:.2} s", after.as_secs_f64())));
                break;
            }
            std::thread::sleep(Duration::from_millis(100));
        }
    }));
    if r.is_err() {
        fails.push(("C01/panic/tracker/real_time".into(), format!("the tracker panicked at {}", last_panic())));
    }
    fails
}

pub fn crowd_expiry_check(n: usize) -> Vec<Fail> {
    let mut planes = Airplanes::new();
    let mut fails = vec![];
    let addr = |i: usize| 0x600000 + (i as u32) * 3;
    for i in 0..n {
        let mut me = [0u8; 7];
        set(&mut me, 1, 5, 4);
        for k in 0..8 {
            set(&mut me, 9 + 6 * k, 6, 1 + ((i + k) % 26) as u64);
        }
        if let Ok(f) = Frame::from_bytes(&squitter(17, 5, addr(i), &me)) {
            planes.action(f, (52.0, 4.0), 500.0);
        }
    }
    for i in (0..n).step_by(2) {
        planes.verif_backdate(icao(addr(i)), std::time::Duration::from_secs(7));
    }
    if catch_unwind(AssertUnwindSafe(|| planes.prune(5))).is_err() {
        fails.push(("C15/prune_panic/crowd".to_string(), format!("prune(5) with {n} aircraft tracked, {} of them silent for 7 s, panicked at {}", n.div_ceil(2), last_panic())));
    }
    let mut left: Vec<u32> = planes.keys().map(icao_u).collect();
    left.sort_unstable();
    let want: Vec<u32> = (0..n).filter(|i| i % 2 == 1).map(addr).collect();
    if left != want {
        fails.push(("C15/prune_keys/crowd".to_string(), format!("{n} aircraft, every second one silent for 7 s: prune(5) left {} of them, expected {} (first survivors {:?})", left.len(), want.len(), left.iter().take(4).map(|x| format!("{x:06x}")).collect::<Vec<_>>())));
    }
    fails
}

/// C12 over a long life: one address heard `n` times (every payload kind, DF17 and DF18), a
/// neighbour and non-squitter formats interleaved; the count is compared after every frame.
pub fn long_count_check(seed: u64, n: usize) -> Vec<Fail> {
    use crate::core::RngExt;
    let mut rng = make_rng(seed, 0x10c0, n as u64);
    let mut planes = Airplanes::new();
    let (a, b) = (0x4840d6u32, 0x4840d7u32);
    let (mut na, mut nb) = (0u64, 0u64);
    let mut fails = vec![];
    for i in 0..n {
        let mut me = [0u8; 7];
        let r = rng.bytes(7);
        me.copy_from_slice(&r);
        let tc = *rng.pick(&[1u8, 4, 19, 11, 12, 31, 28, 0, 7, 29, 23]);
        set(&mut me, 1, 5, tc as u64);
        if tc == 31 {
            set(&mut me, 6, 3, 2 + rng.below(6));
        }
        if tc == 11 || tc == 12 {
            // one fixed place: the position record is exercised without jumps
            let e = refcpr::encode(52.3, 4.7, (i & 1) as u32);
            set(&mut me, 22, 1, (i & 1) as u64);
            set(&mut me, 23, 17, e.0 as u64);
            set(&mut me, 40, 17, e.1 as u64);
        }
        let who = if i % 17 == 3 { b } else { a };
        let bytes = match i % 29 {
            5 => {
                // a non-squitter format carrying the same address: must not count
                let mut x = vec![0u8; 7];
                set(&mut x, 1, 5, 11);
                set(&mut x, 9, 24, who as u64);
                x
            }
            _ => squitter(if rng.chance(1, 4) { 18 } else { 17 }, 5, who, &me),
        };
        let counted = i % 29 != 5;
        let Ok(frame) = Frame::from_bytes(&bytes) else { continue };
        planes.action(frame, (52.0, 4.0), 500.0);
        if counted {
            if who == a {
                na += 1;
            } else {
                nb += 1;
            }
        }
        for (k, want) in [(a, na), (b, nb)] {
            let got = planes.get(icao(k)).map(|st| st.num_messages as u64).unwrap_or(0);
            if got != want {
                fails.push(("C12/num_messages/long".to_string(), format!("{k:06x}: num_messages {got} after {want} extended squitters (frame {i} of the history)")));
                return fails;
            }
        }
    }
    fails
}

/// C12 in the alloc-only build of the tracker: the history is interpreted by the worker process
/// that links both libraries without `std`; added flags, key set and message counts are compared
/// with the model (there is no expiry in that build).
pub fn nostd_eval(worker: &mut crate::configs::Worker, scenarios: &[Scenario]) -> Vec<(Fail, Value)> {
    let mut reqs = vec![];
    let mut metas = vec![];
    for s in scenarios {
        let mut world = World::new(s);
        let mut frames = vec![];
        let mut meta = vec![];
        for op in &s.ops {
            if let Some(b) = build(&mut world, op) {
                meta.push((b.addr, b.squitter));
                frames.push(bits::hex(&b.bytes));
            }
        }
        reqs.push(format!("H {} {} {} {}", world.rx.0, world.rx.1, world.range, frames.join(",")));
        metas.push(meta);
    }
    let answers = worker.ask(&reqs);
    let mut out = vec![];
    for ((s, meta), ans) in scenarios.iter().zip(metas.iter()).zip(answers.iter()) {
        let mut counts: BTreeMap<u32, u64> = BTreeMap::new();
        let mut lines = ans.lines().peekable();
        let mut step = 0usize;
        let mut fail: Option<Fail> = None;
        while let Some(l) = lines.next() {
            let Some(rest) = l.strip_prefix('#') else { continue };
            let (idx, verdict) = rest.split_once(' ').unwrap_or((rest, ""));
            let i: usize = idx.parse().unwrap_or(usize::MAX);
            step += 1;
            let Some((addr, squitter)) = meta.get(i).copied() else { continue };
            if verdict == "Err" {
                continue;
            }
            let added = verdict == "added=true";
            let was = counts.contains_key(&addr);
            if squitter {
                *counts.entry(addr).or_insert(0) += 1;
            }
            if added != (squitter && !was) {
                fail = Some(("C12/no_std/added".into(), format!("alloc-only build: frame {i} from {addr:06x} (squitter: {squitter}, tracked before: {was}) is reported added={added}")));
                break;
            }
            let mut seen: BTreeMap<u32, u64> = BTreeMap::new();
            while let Some(d) = lines.peek() {
                if d.starts_with('#') {
                    break;
                }
                let d = lines.next().unwrap();
                if d.len() > 10 && d.as_bytes()[6] == b':' && d[7..].starts_with(" n=") {
                    if let (Ok(k), Some(nn)) = (u32::from_str_radix(&d[..6], 16), d[10..].split(' ').next().and_then(|x| x.parse::<u64>().ok())) {
                        seen.insert(k, nn);
                    }
                }
            }
            if seen.keys().collect::<Vec<_>>() != counts.keys().collect::<Vec<_>>() {
                fail = Some(("C12/no_std/keys".into(), format!("alloc-only build: after frame {i} the tracked set is {:?}, the addresses heard in extended squitters are {:?}", seen.keys().map(|k| format!("{k:06x}")).collect::<Vec<_>>(), counts.keys().map(|k| format!("{k:06x}")).collect::<Vec<_>>())));
                break;
            }
            if let Some((k, n)) = seen.iter().find(|(k, n)| counts[*k] != **n) {
                fail = Some(("C12/no_std/num_messages".into(), format!("alloc-only build: {k:06x} has num_messages {n} after {} extended squitters (frame {i})", counts[k])));
                break;
            }
        }
        if fail.is_none() && step != meta.len() {
            fail = Some(("C12/no_std/transcript".into(), format!("alloc-only build: {} frames fed, {step} steps reported", meta.len())));
        }
        if let Some(f) = fail {
            let mut v = scenario_json(s);
            v["kind"] = json!("history_nostd");
            out.push((f, v));
        }
    }
    out
}

/// C14's invariants in the alloc-only build: the histories are interpreted by the worker process;
/// after every step, for every record: a distance is present exactly when a position is, details
/// only with a position, and the position list has one entry per positioned record.
pub fn nostd_invariants(worker: &mut crate::configs::Worker, scenarios: &[Scenario]) -> Vec<(Fail, Value)> {
    let mut reqs = vec![];
    for s in scenarios {
        let mut world = World::new(s);
        let frames: Vec<String> = s.ops.iter().filter_map(|op| build(&mut world, op)).map(|b| bits::hex(&b.bytes)).collect();
        reqs.push(format!("H {} {} {} {}", world.rx.0, world.rx.1, world.range, frames.join(",")));
    }
    let answers = worker.ask(&reqs);
    let mut out = vec![];
    for (s, ans) in scenarios.iter().zip(answers.iter()) {
        let mut fail: Option<Fail> = None;
        let mut step = String::new();
        let mut positioned = 0usize;
        let mut last_key = String::new();
        let mut last_pos = false;
        for l in ans.lines() {
            if let Some(r) = l.strip_prefix('#') {
                step = r.to_string();
                positioned = 0;
            } else if l.len() > 10 && l.as_bytes()[6] == b':' && l[7..].starts_with(" n=") {
                let pos = l.contains(" pos=Some(");
                let dist = l.contains(" dist=Some(");
                last_key = l[..6].to_string();
                last_pos = pos;
                if pos {
                    positioned += 1;
                }
                if pos != dist {
                    fail = Some(("C14/no_std/distance_iff_position".into(), format!("alloc-only build, step {step}: {last_key} has position {} and distance {}", if pos { "Some" } else { "None" }, if dist { "Some" } else { "None" })));
                    break;
                }
            } else if l.starts_with("  details pos=") && !last_pos {
                fail = Some(("C14/no_std/details_without_position".into(), format!("alloc-only build, step {step}: {last_key} has details but no position")));
                break;
            } else if let Some(r) = l.strip_prefix("all_position=") {
                let listed = r.matches("ICAO(").count();
                if listed != positioned {
                    fail = Some(("C14/no_std/all_position".into(), format!("alloc-only build, step {step}: the position list has {listed} entries, {positioned} records have a position")));
                    break;
                }
            }
        }
        if let Some(f) = fail {
            let mut v = scenario_json(s);
            v["kind"] = json!("history_nostd");
            out.push((f, v));
        }
    }
    out
}

pub fn run(ctx: &Ctx, pid: &'static str) -> ! {
    let with_time = pid == "C15" || pid == "C12";
    let cases = ctx.tier.pick(96_000u32, 4_000_000);
    let max_ops = if pid == "C13" || pid == "C14" { 60 } else { 40 };
    // real time, thin traffic: runs beside the generated histories (it mostly sleeps)
    let thin = if pid == "C12" || pid == "C15" { Some(std::thread::spawn(thin_traffic_check)) } else { None };
    let mut st = parallel(|w, st| {
        let strat = scenario_s(max_ops, with_time);
        let mut runner = TestRunner::new(Config { cases: cases / WORKERS as u32, failure_persistence: None, rng_seed: RngSeed::Fixed(runner_seed(ctx.seed, 0x7000 + pid.as_bytes()[2] as u64, w as u64)), max_shrink_iters: 3000, ..Config::default() });
        // a known finding is excluded by construction (counted) so that the search continues
        let known: Vec<String> = ctx.known.iter().filter(|k| k.status == "known").map(|k| k.signature.clone()).collect();
        let local = std::cell::RefCell::new((Stats::default(), true));
        let res = runner.run(&strat, |s| {
            let (fails, out) = eval_scenario(&s);
            let mine: Vec<&Fail> = fails.iter().filter(|f| f.0.starts_with(pid)).collect();
            {
                let mut l = local.borrow_mut();
                if l.1 {
                    let st = &mut l.0;
                    st.eval();
                    st.dontcare += out.dontcare as u64;
                    if !fails.is_empty() && mine.is_empty() {
                        st.excluded += 1; // stopped by a failure that another property owns
                        st.class(&format!("excluded by {}", fails[0].0));
                    }
                    let nontrivial = match pid {
                        "C12" => out.interleaved && out.saw_df18 && out.saw_other,
                        "C13" => out.publishes >= 1 && out.clears >= 1,
                        "C14" => out.publishes >= 2,
                        _ => out.partial_prunes >= 1,
                    };
                    if nontrivial {
                        st.nontrivial(&format!("{s:?}"));
                        st.class("non-trivial");
                    }
                    if out.publishes > 0 {
                        st.class("history with a publication");
                    }
                    if out.jump_clears > 0 {
                        st.class("history with a jump clear");
                    }
                    if out.range_clears > 0 {
                        st.class("history with an out-of-range clear");
                    }
                    if out.publishes > 0 && out.clears > 0 {
                        st.class("publish and clear");
                    }
                    if out.partial_prunes > 0 {
                        st.class("partial prune");
                    }
                    if out.readds > 0 {
                        st.class("re-added after expiry");
                    }
                    if s.rx == 1 {
                        st.class("high latitude receiver");
                    }
                    if s.rx == 2 {
                        st.class("antimeridian receiver");
                    }
                    if out.saw_df18 {
                        st.class("with DF18");
                    }
                    if s.ops.iter().any(|o| matches!(o, Op::Squitter { ac, .. } if ac & 0x80 != 0)) {
                        st.class("with a squitter whose checksum fails");
                    }
                    if matches!(s.ops.iter().find(|o| matches!(o, Op::Squitter { .. })), Some(Op::Squitter { ac, .. }) if ac & 0x80 != 0) {
                        st.class("first squitter of the history fails its checksum");
                    }
                    if st.samples.len() < 3 && nontrivial && s.ops.len() < 14 {
                        st.samples.push(json!({"ops": s.ops.iter().map(op_json).collect::<Vec<_>>(), "rx": RX[s.rx as usize % RX.len()], "range": RANGES[s.range as usize % RANGES.len()]}));
                    }
                    for f in &mine {
                        if known.iter().any(|k| sig_match(k, &f.0)) {
                            st.fail(Failure { sig: f.0.clone(), msg: f.1.clone(), replay: scenario_json(&s) });
                        }
                    }
                }
            }
            if let Some(f) = mine.iter().find(|f| !known.iter().any(|k| sig_match(k, &f.0))) {
                local.borrow_mut().1 = false;
                return Err(TestCaseError::fail(f.0.clone()));
            }
            Ok(())
        });
        let (l, _) = local.into_inner();
        st.merge(l);
        if let Err(TestError::Fail(reason, s)) = res {
            let sig = reason.message().to_string();
            let (fails, _) = eval_scenario(&s);
            let msg = fails.iter().find(|f| f.0 == sig).map(|f| f.1.clone()).unwrap_or_default();
            let tr = run_history(&s, None, true);
            st.fail(Failure { sig, msg: format!("{msg}; history: {:?}", tr.steps), replay: scenario_json(&s) });
        }
    });
    if pid == "C13" || pid == "C14" {
        // every longitude-zone transition, both hemispheres: an aircraft creeps north and south
        // across it in steps of about one CPR latitude step, even and odd reports alternating
        // (unlimited range, so that every fix is published)
        let mut n = 0u64;
        for k in 0..116u16 {
            for off in [0u16, 3, 8, 13, 16] {
                for dir in [0u16, 180] {
                    let mut ops = vec![];
                    for j in 0..20 {
                        ops.push(Op::Squitter { ac: 0, df18: if j % 7 == 3 { Some(2) } else { None }, kind: Kind::Position { odd: j % 2 == 1, tc: 11, alt: 0x5d0 | 0x10, src: PosSrc::Flight { bearing: dir, d_centinm: (j % 3 == 0) as u16 } } });
                    }
                    let sc = Scenario { rx: 0, range: 2, start: vec![(k, off)], ops, isolate: 0, snap: 0x81 };
                    let (fails, _) = eval_scenario(&sc);
                    n += 1;
                    for (sig, msg) in fails.into_iter().filter(|f| f.0.starts_with(pid)) {
                        if !st.failures.contains_key(&sig) {
                            let tr = run_history(&sc, None, true);
                            st.fail(Failure { sig, msg: format!("{msg}; history: {:?}", tr.steps), replay: scenario_json(&sc) });
                        }
                    }
                }
            }
        }
        if pid == "C13" {
            st.evaluations += 72;
            st.nontrivial_enum += 24;
            st.class("fix exactly at the range limit");
            for (sig, msg) in range_boundary_check() {
                if !st.failures.contains_key(&sig) {
                    st.fail(Failure { sig, msg, replay: json!({"kind": "range_boundary"}) });
                }
            }
        }
        for nn in [900usize, if ctx.tier == Tier::Quick { 2500 } else { 40_000 }] {
            st.evaluations += nn as u64;
            st.nontrivial_enum += 1;
            st.class("crowd of positioned aircraft");
            for (sig, msg) in crowd_positions_check(ctx.seed, nn).into_iter().filter(|f| f.0.starts_with(pid)) {
                st.fail(Failure { sig, msg, replay: json!({"kind": "crowd_positions", "n": nn, "seed": ctx.seed}) });
            }
        }
        st.evaluations += n;
        st.nontrivial_enum += n;
        st.class_n("flight across a zone transition", n);
        st.exhaustive.push("flights across each of the 58 longitude-zone transitions in both hemispheres (5 offsets x 2 directions)".into());
    }
    if pid == "C14" {
        // the invariants once more in the alloc-only build; the std run of the same histories
        // tells how many of them publish a position at all (a vacuity guard for this pass)
        use proptest::strategy::ValueTree;
        let n = ctx.tier.pick(1200usize, 30_000);
        let mut runner = TestRunner::new(Config { failure_persistence: None, rng_seed: RngSeed::Fixed(runner_seed(ctx.seed, 0x7c14, 0)), ..Config::default() });
        let strat = scenario_s(40, false);
        let mut worker = crate::configs::Worker::spawn();
        let mut done = 0;
        let mut reported = false;
        let mut published = 0u64;
        while done < n {
            let chunk: Vec<Scenario> = (0..100.min(n - done)).filter_map(|_| strat.new_tree(&mut runner).ok().map(|t| t.current())).collect();
            done += 100.min(n - done);
            st.evaluations += chunk.len() as u64;
            published += chunk.iter().filter(|s| run_history(s, None, false).publishes > 0).count() as u64;
            for ((sig, msg), replay) in nostd_invariants(&mut worker, &chunk) {
                if !reported {
                    st.fail(Failure { sig, msg, replay });
                    reported = true;
                }
            }
        }
        st.class_n("history in the alloc-only build", n as u64);
        st.class_n("history in the alloc-only build that publishes a position (std run)", published);
    }
    if pid == "C14" || pid == "C15" {
        let n = ctx.tier.pick(9_000usize, 40_000);
        st.evaluations += n as u64;
        st.nontrivial_enum += 1;
        st.class("long flight of one aircraft");
        for (sig, msg) in long_flight_check(n).into_iter().filter(|f| f.0.starts_with(pid)) {
            st.fail(Failure { sig, msg, replay: json!({"kind": "long_flight", "n": n}) });
        }
    }
    if pid == "C13" {
        let n = 2 * 3 * 2 * 12 * 4;
        st.evaluations += n;
        st.nontrivial_enum += n;
        st.class_n("receiver moves 100-700 km while an aircraft is tracked", n);
        for ((sig, msg), sc) in moving_receiver_check().into_iter().filter(|(f, _)| f.0.starts_with(pid)) {
            if !st.failures.contains_key(&sig) {
                st.fail(Failure { sig, msg, replay: scenario_json(&sc) });
            }
        }
    }
    if let Some(h) = thin {
        st.evaluations += 26;
        st.nontrivial_enum += 1;
        st.class("thin traffic in real time");
        for (sig, msg) in h.join().unwrap_or_default().into_iter().filter(|f| f.0.starts_with(pid)) {
            st.fail(Failure { sig, msg, replay: json!({"kind": "thin_traffic"}) });
        }
    }
    if pid == "C15" {
        for n in [300usize, 1000, ctx.tier.pick(3000usize, 70_000)] {
            st.evaluations += n as u64;
            st.nontrivial_enum += 1;
            st.class("crowd expiry");
            for (sig, msg) in crowd_expiry_check(n) {
                st.fail(Failure { sig, msg, replay: json!({"kind": "crowd_expiry", "n": n}) });
            }
        }
    }
    if pid == "C12" {
        for (n, rounds) in [(700usize, 3usize), (2100, 2), (70_000, 1)] {
            if n > 3000 && ctx.tier == Tier::Quick {
                continue;
            }
            st.evaluations += (n * rounds) as u64;
            st.nontrivial_enum += 1;
            st.class("crowd of distinct addresses");
            for (sig, msg) in crowd_check(ctx.seed, n, rounds) {
                st.fail(Failure { sig, msg, replay: json!({"kind": "crowd", "n": n, "rounds": rounds, "seed": ctx.seed}) });
            }
        }
        // a long-lived aircraft: beyond 2^16 counted frames (2^20 in the thorough tier)
        let n = ctx.tier.pick(90_000usize, 1_300_000);
        st.evaluations += n as u64;
        st.nontrivial_enum += 1;
        st.class("long-lived aircraft");
        for (sig, msg) in long_count_check(ctx.seed, n) {
            st.fail(Failure { sig, msg, replay: json!({"kind": "long_count", "n": n, "seed": ctx.seed}) });
        }
        // the same accounting in the alloc-only build
        {
            use proptest::strategy::ValueTree;
            let n = ctx.tier.pick(1500usize, 40_000);
            let mut runner = TestRunner::new(Config { failure_persistence: None, rng_seed: RngSeed::Fixed(runner_seed(ctx.seed, 0x7c12, 0)), ..Config::default() });
            let strat = scenario_s(30, false);
            let mut worker = crate::configs::Worker::spawn();
            let mut done = 0;
            let mut reported = false;
            while done < n {
                let chunk: Vec<Scenario> = (0..100.min(n - done)).filter_map(|_| strat.new_tree(&mut runner).ok().map(|t| t.current())).collect();
                done += 100.min(n - done);
                st.evaluations += chunk.len() as u64;
                for ((sig, msg), replay) in nostd_eval(&mut worker, &chunk) {
                    if !reported {
                        st.fail(Failure { sig, msg, replay });
                        reported = true;
                    }
                }
            }
            st.class_n("history in the alloc-only build", n as u64);
        }
    }
    let mut vac = vec![];
    let total = st.evaluations.max(1);
    let nt = st.classes.get("non-trivial").copied().unwrap_or(0);
    let need = match pid {
        "C12" => 20,
        "C13" => 5,
        "C14" => 20,
        _ => 5,
    };
    if st.failures.is_empty() && nt * 100 < total * need {
        vac.push(format!("non-trivial histories below {need}% ({nt}/{total})"));
    }
    let rule = match pid {
        "C12" => "proptest-generated histories (vec of ops: DF17/DF18 squitters of every payload kind from 1-4 aircraft, non-squitter formats carrying the same addresses, waits, expiry) interpreted on the tracker and on a reference model, compared after every op; plus the metamorphic relation record(H) == record(H restricted to that aircraft); non-trivial = history with interleaved aircraft, a DF18 frame and a non-squitter frame; distinct by hash of the op list",
        "C13" => "proptest-generated histories with consistent flights (reference CPR encoder), jumps on both sides of 100 km, positions at 0.99/1.01 x max range, raw garbage CPR, repeated reports, receiver at mid/high latitude, antimeridian, southern; model: pairing of the stored even and odd report (either argument order), great-circle distance, publish / clear decision; thresholds closer than 1e-6 relative are don't-care; non-trivial = history with >= 1 publication and >= 1 clear; distinct by hash",
        "C14" => "proptest-generated histories; after every op: latest-wins attributes against the model, and the invariants distance<=>position, all_position, details, track (positioned entries = earlier publications in order, consecutive duplicates collapsed, entries wiped by a clear optional), to_string; non-trivial = history with >= 2 publications; distinct by hash",
        _ => "proptest-generated histories with Advance (back-dating hook, multiples of 0.5 s) and Prune(T); model keeps exact ages; oracle: surviving key set = {age < T}, survivors unchanged, re-added aircraft start empty; non-trivial = history in which a prune removes a strict non-empty subset; cases slower than 0.3 s are inconclusive; distinct by hash",
    };
    finish(
        ctx,
        st,
        rule,
        &[
            "frames are real bytes decoded by the library; get_position itself is decided by C05 and used as the pairing function of the model",
            "lenient readings: either argument order of the pairing; a threshold within 1e-6 relative is don't-care; whether stored reports survive a pairing that yields no position is left open",
            "a history stops at the first op on which any property fails; failures owned by another property are counted as excluded",
        ],
        vac,
    )
}
