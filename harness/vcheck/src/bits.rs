//! MSB-first bit access (bit 1 = MSB of byte 0, as in Annex 10), hex, reference CRC.

/// bits `start..start+len-1` (1-based, MSB first) of buf as an integer; len <= 64
pub fn get(buf: &[u8], start: usize, len: usize) -> u64 {
    let mut v = 0u64;
    for i in 0..len {
        let b = start - 1 + i;
        let bit = (buf[b / 8] >> (7 - (b % 8))) & 1;
        v = (v << 1) | bit as u64;
    }
    v
}

pub fn set(buf: &mut [u8], start: usize, len: usize, val: u64) {
    for i in 0..len {
        let b = start - 1 + i;
        let bit = ((val >> (len - 1 - i)) & 1) as u8;
        let m = 1u8 << (7 - (b % 8));
        if bit == 1 {
            buf[b / 8] |= m;
        } else {
            buf[b / 8] &= !m;
        }
    }
}

pub fn flip(buf: &mut [u8], bit1: usize) {
    let b = bit1 - 1;
    buf[b / 8] ^= 1u8 << (7 - (b % 8));
}

pub fn hex(b: &[u8]) -> String {
    let mut s = String::with_capacity(b.len() * 2);
    for x in b {
        s.push_str(&format!("{x:02x}"));
    }
    s
}

pub fn unhex(s: &str) -> Option<Vec<u8>> {
    let s = s.trim();
    if s.len() % 2 != 0 {
        return None;
    }
    (0..s.len() / 2).map(|i| u8::from_str_radix(s.get(2 * i..2 * i + 2)?, 16).ok()).collect()
}

/// Mode S generator polynomial, 25 bits: x^24 + ... (0x1FFF409)
pub const GENERATOR: u32 = 0x1FF_F409;

/// Remainder of the whole `bytes` window (as a polynomial, MSB first) modulo the generator —
/// bit-by-bit long division, no table.  For a frame whose last 24 bits are PI/AP this equals
/// "remainder of the leading bits (shifted by 24) XOR last 24 bits".
pub fn refcrc(bytes: &[u8]) -> u32 {
    let mut rem: u32 = 0; // holds up to 25 bits
    for &byte in bytes {
        for i in (0..8).rev() {
            let bit = ((byte >> i) & 1) as u32;
            rem = (rem << 1) | bit;
            if rem & 0x100_0000 != 0 {
                rem ^= GENERATOR;
            }
        }
    }
    rem & 0xff_ffff
}

/// Parity of the first n-3 bytes: the 24 bits which, appended, make refcrc == 0.
pub fn parity_of(lead: &[u8]) -> u32 {
    let mut v = lead.to_vec();
    v.extend_from_slice(&[0, 0, 0]);
    refcrc(&v)
}

/// Overwrite the last three bytes so that refcrc(frame) == target.
pub fn fix_parity(frame: &mut [u8], target: u32) {
    let n = frame.len();
    let p = parity_of(&frame[..n - 3]) ^ (target & 0xff_ffff);
    frame[n - 3] = (p >> 16) as u8;
    frame[n - 2] = (p >> 8) as u8;
    frame[n - 1] = p as u8;
}

/// Required frame length in bytes for a DF code, per Annex 10: DF < 16 short, else long.
pub fn required_len(df: u8) -> usize {
    if df & 0x10 != 0 {
        14
    } else {
        7
    }
}

pub fn df_supported(df: u8) -> bool {
    matches!(df, 0 | 4 | 5 | 11 | 16..=21 | 24..=31)
}
