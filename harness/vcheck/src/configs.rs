//! C20: the alloc-only build agrees with the std build (differential against a child process that
//! links the libraries without std), and serde round trips preserve frames and tracker states.
use crate::bits;
use crate::core::*;
use crate::framegen::*;
use crate::tracker::{self, Scenario};
use crate::transcript;
use adsb_deku::Frame;
use proptest::prelude::*;
use proptest::test_runner::{Config, RngSeed, TestCaseError, TestError, TestRunner};
use rsadsb_common::Airplanes;
use serde_json::{json, Value};
use std::io::{BufRead, BufReader, Write};
use std::process::{Child, ChildStdin, ChildStdout, Command, Stdio};

pub struct Worker {
    child: Child,
    stdin: ChildStdin,
    stdout: BufReader<ChildStdout>,
}

impl Worker {
    pub fn spawn() -> Worker {
        let path = std::env::var("VWORKER_BIN").unwrap_or_else(|_| "/verif/work/target-worker/release/vworker".to_string());
        let mut child = Command::new(&path).stdin(Stdio::piped()).stdout(Stdio::piped()).spawn().unwrap_or_else(|e| {
            println!("INCONCLUSIVE: cannot start the alloc-only worker {path}: {e}");
            std::process::exit(2)
        });
        let stdin = child.stdin.take().unwrap();
        let stdout = BufReader::new(child.stdout.take().unwrap());
        Worker { child, stdin, stdout }
    }
    /// send a batch of request lines, read as many answers
    pub fn ask(&mut self, reqs: &[String]) -> Vec<String> {
        let mut out = Vec::with_capacity(reqs.len());
        for chunk in reqs.chunks(32) {
            for r in chunk {
                let _ = writeln!(self.stdin, "{r}");
            }
            let _ = self.stdin.flush();
            for _ in chunk {
                let mut line = String::new();
                match self.stdout.read_line(&mut line) {
                    Ok(n) if n > 0 => out.push(line.trim_end_matches('\n').replace('\x1f', "\n")),
                    _ => {
                        // the worker died: a panic in the alloc-only build
                        out.push("<worker terminated (panic in the alloc-only build?)>".to_string());
                    }
                }
            }
        }
        out
    }
}

impl Drop for Worker {
    fn drop(&mut self) {
        let _ = self.child.kill();
        let _ = self.child.wait();
    }
}

fn first_diff(a: &str, b: &str) -> String {
    for (x, y) in a.lines().zip(b.lines()) {
        if x != y {
            let cut = |s: &str| if s.len() > 300 { format!("{}...", &s[..300]) } else { s.to_string() };
            return format!("std: `{}` / alloc-only: `{}`", cut(x), cut(y));
        }
    }
    format!("std has {} lines, alloc-only has {}", a.lines().count(), b.lines().count())
}

/// frames of a scenario + the time (in seconds) that passes before each frame in the std build
fn history_frames(s: &Scenario) -> (Vec<Vec<u8>>, (f64, f64), f64, Vec<u64>) {
    let mut world = tracker::World::new(s);
    let mut frames = vec![];
    let mut waits = vec![];
    let mut pending = 0u64;
    for op in &s.ops {
        if let tracker::Op::Advance { half_s } = op {
            pending += *half_s as u64 * 20; // up to ~4 minutes
            continue;
        }
        if let Some(b) = tracker::build(&mut world, op) {
            frames.push(b.bytes);
            waits.push(pending);
            pending = 0;
        }
    }
    (frames, world.rx, world.range, waits)
}

/// std side: let `waits[i]` seconds pass for every tracked aircraft before frame i
fn std_transcript(frames: &[Vec<u8>], rx: (f64, f64), range: f64, waits: &[u64]) -> String {
    transcript::history_transcript_with(frames, rx, range, &mut |p: &mut Airplanes, i: usize| {
        let w = waits.get(i).copied().unwrap_or(0);
        if w > 0 {
            let keys: Vec<_> = p.keys().copied().collect();
            for k in keys {
                p.verif_backdate(k, std::time::Duration::from_secs(w));
            }
        }
    })
}

fn history_req(frames: &[Vec<u8>], rx: (f64, f64), range: f64) -> String {
    format!("H {} {} {} {}", rx.0, rx.1, range, frames.iter().map(|f| bits::hex(f)).collect::<Vec<_>>().join(","))
}

/// serde round trip of a frame: Debug text and df equal
pub fn serde_frame(b: &[u8]) -> Option<String> {
    let f = Frame::from_bytes(b).ok()?;
    let js = match serde_json::to_string(&f) {
        Ok(j) => j,
        Err(e) => return Some(format!("frame does not serialize: {e}")),
    };
    match serde_json::from_str::<Frame>(&js) {
        Err(e) => Some(format!("serialized frame does not deserialize: {e} ({js})")),
        Ok(g) => {
            if g.df != f.df || g.crc != f.crc || format!("{g:?}") != format!("{f:?}") {
                Some(format!("frame changed in a serde round trip: {f:?} -> {g:?}"))
            } else {
                None
            }
        }
    }
}

/// serde round trip of a tracker state: same Debug text (incl. time stamps) and the same future
fn serde_tracker(frames: &[Vec<u8>], rx: (f64, f64), range: f64) -> Option<String> {
    let cut = frames.len() / 2 + frames.len() % 2;
    let mut p = Airplanes::new();
    for b in &frames[..cut] {
        if let Ok(f) = Frame::from_bytes(b) {
            let _ = p.action(f, rx, range);
        }
    }
    let js = match serde_json::to_string(&p) {
        Ok(j) => j,
        Err(e) => return Some(format!("tracker state does not serialize: {e}")),
    };
    let mut q: Airplanes = match serde_json::from_str(&js) {
        Ok(q) => q,
        Err(e) => return Some(format!("serialized tracker state does not deserialize: {e}")),
    };
    if format!("{p:?}") != format!("{q:?}") {
        return Some(format!("tracker state changed in a serde round trip: {}", first_diff(&format!("{p:#?}"), &format!("{q:#?}"))));
    }
    // behavioural equality: both continue the history identically
    for b in &frames[cut..] {
        let (fa, fb) = (Frame::from_bytes(b), Frame::from_bytes(b));
        if let (Ok(fa), Ok(fb)) = (fa, fb) {
            let ra = p.action(fa, rx, range);
            let rb = q.action(fb, rx, range);
            if ra != rb {
                return Some("round-tripped tracker reports a different `added` for the next frame".into());
            }
        }
    }
    let (da, db) = (transcript::tracker_dump(&p), transcript::tracker_dump(&q));
    if da != db {
        return Some(format!("round-tripped tracker diverges when the history continues: {}", first_diff(&da, &db)));
    }
    None
}

pub fn replay_c20(v: &Value) -> Vec<Failure> {
    let mut out = vec![];
    let mut w = Worker::spawn();
    match v.get("kind").and_then(|k| k.as_str()) {
        Some("long_flight") => {
            let n = v["n"].as_u64().unwrap_or(6000) as usize;
            let frames = tracker::flight_frames(n);
            let std_final = transcript::history_final(&frames, (52.0, 4.0), 500.0);
            let ans = w.ask(&[format!("HF 52 4 500 {}", frames.iter().map(|f| bits::hex(f)).collect::<Vec<_>>().join(","))]);
            if let Some(a) = ans.first() {
                if norm(a) != norm(&std_final) {
                    out.push(Failure { sig: "C20/long_flight_differs".into(), msg: format!("final tracker state differs between the builds: {}", first_diff(&std_final, a)), replay: v.clone() });
                }
            }
        }
        Some("reader_nostd") => {
            let Some(b) = v.get("hex").and_then(|h| h.as_str()).and_then(bits::unhex) else { return out };
            let max = v["max"].as_u64().unwrap_or(1);
            let ints: Vec<String> = v["interrupts"].as_array().map(|a| a.iter().filter_map(|x| x.as_u64()).map(|x| x.to_string()).collect()).unwrap_or_default();
            let mine = transcript::frame_transcript(&b, &mut None);
            let r = w.ask(&[format!("RD {max} {} {}", if ints.is_empty() { "-".to_string() } else { ints.join(",") }, bits::hex(&b))]);
            let theirs = r.first().cloned().unwrap_or_default();
            let same = if mine == "Err" { theirs == "Err" } else { !theirs.is_empty() && theirs != "Err" && mine.starts_with(norm(&theirs)) };
            if !same {
                out.push(Failure { sig: "C20/reader_differs".into(), msg: format!("std build: `{}`; alloc-only build through the interrupted reader: `{}`", short_s(&mine), short_s(&theirs)), replay: v.clone() });
            }
        }
        Some("frame") => {
            let Some(b) = v.get("hex").and_then(|h| h.as_str()).and_then(bits::unhex) else { return out };
            let a = transcript::frame_transcript(&b, &mut None);
            let r = w.ask(&["R".into(), format!("F {}", bits::hex(&b))]);
            if r[1] != a.trim_end_matches('\n') && r[1] != a {
                out.push(Failure { sig: "C20/frame_differs".into(), msg: first_diff(&a, &r[1]), replay: v.clone() });
            }
            if let Some(m) = serde_frame(&b) {
                out.push(Failure { sig: "C20/serde_frame".into(), msg: m, replay: v.clone() });
            }
        }
        _ => {
            let frames: Vec<Vec<u8>> = v.get("frames").and_then(|x| x.as_array()).map(|a| a.iter().filter_map(|h| h.as_str().and_then(bits::unhex)).collect()).unwrap_or_default();
            let rx = (v["rx_lat"].as_f64().unwrap_or(0.0), v["rx_lon"].as_f64().unwrap_or(0.0));
            let range = v["range"].as_f64().unwrap_or(0.0);
            let waits: Vec<u64> = v.get("waits_s").and_then(|x| x.as_array()).map(|a| a.iter().map(|x| x.as_u64().unwrap_or(0)).collect()).unwrap_or_default();
            let a = std_transcript(&frames, rx, range, &waits);
            let r = w.ask(&[history_req(&frames, rx, range)]);
            if norm(&r[0]) != norm(&a) {
                out.push(Failure { sig: "C20/history_differs".into(), msg: first_diff(&a, &r[0]), replay: v.clone() });
            }
            if let Some(m) = serde_tracker(&frames, rx, range) {
                out.push(Failure { sig: "C20/serde_tracker".into(), msg: m, replay: v.clone() });
            }
        }
    }
    out
}

/// the `PAIR` line (pairing of two position squitters in both orders) as this build renders it
pub fn pair_line_std(first: &[u8], second: &[u8]) -> Option<String> {
    let mut prev = None;
    let _ = transcript::frame_transcript(first, &mut prev);
    let t = transcript::frame_transcript(second, &mut prev);
    t.lines().find(|l| l.starts_with("PAIR ")).map(|l| l.to_string())
}

fn short_s(s: &str) -> String {
    let t: String = s.chars().take(260).collect();
    t.replace('\n', " | ")
}

fn norm(s: &str) -> &str {
    s.trim_end_matches('\n')
}

pub fn run_c20(ctx: &Ctx) -> ! {
    let nframes = ctx.tier.pick(240_000u64, 24_000_000);
    let nhist = ctx.tier.pick(8_000u32, 1_200_000);
    let mut st = parallel(|w, st| {
        let mut rng = ctx.rng(20, w as u64);
        let mut worker = Worker::spawn();
        // ---- frames: batches through the alloc-only worker
        let batch = 256usize;
        let mut done = 0u64;
        while done < nframes / WORKERS as u64 {
            let mut cases: Vec<Vec<u8>> = vec![];
            for _ in 0..batch {
                let mut f = gen_frame(&mut rng);
                if f.len() == 14 && rng.chance(1, 3) {
                    bits::set(&mut f, 9, 24, 0xabc000 + rng.below(3));
                }
                let (b, _) = with_len_mode(&mut rng, f);
                cases.push(b);
            }
            // two pairs of position reports whose zone-index rounding is an exact tie
            // (59 YZ0 - 60 YZ1 = -65536 (2t + 1)): floor(x + 1/2) and round() differ there
            for _ in 0..2 {
                let t = rng.below(30) as i64;
                let rhs = 65536 * (2 * t + 1);
                let base = (rhs % 59 + 59) % 59;
                let yz1 = base + 59 * (rng.below(((131071 - base) / 59) as u64 + 1) as i64);
                let yz0 = (60 * yz1 - rhs) / 59;
                if (60 * yz1 - rhs) % 59 != 0 || !(0..131072).contains(&yz0) {
                    continue;
                }
                for (parity, yz) in [(0u64, yz0), (1u64, yz1)] {
                    let mut f = gen_frame_df(&mut rng, 17);
                    let mut me = gen_me(&mut rng, 11);
                    bits::set(&mut me, 22, 1, parity);
                    bits::set(&mut me, 23, 17, yz as u64);
                    f[4..11].copy_from_slice(&me);
                    cases.push(f);
                }
            }
            let mut prev = None;
            let mut reqs = vec!["R".to_string()];
            reqs.extend(cases.iter().map(|b| format!("F {}", bits::hex(b))));
            // ... and the same buffers through the alloc-only build's reader path: fragments of
            // 1, 2, 5 or 14 bytes and a transient `Interrupted` at one or two of the first 12
            // read calls (deku's I/O layer retries those in every build)
            let sched = |i: usize, b: &[u8]| -> (usize, Vec<usize>) {
                let h = b.iter().fold(i as u64 * 0x9e37_79b9, |a, x| a.wrapping_mul(31).wrapping_add(*x as u64));
                let max = [1usize, 2, 5, 14][(h % 4) as usize];
                let k = ((h >> 3) % 12) as usize;
                let ints = match (h >> 8) % 4 {
                    0 => vec![],
                    1 | 2 => vec![k],
                    _ => vec![k, k + 1 + ((h >> 12) % 3) as usize],
                };
                (max, ints)
            };
            reqs.extend(cases.iter().enumerate().map(|(i, b)| {
                let (max, ints) = sched(i, b);
                let l = if ints.is_empty() { "-".to_string() } else { ints.iter().map(|x| x.to_string()).collect::<Vec<_>>().join(",") };
                format!("RD {max} {l} {}", bits::hex(b))
            }));
            let answers = worker.ask(&reqs);
            for (i, b) in cases.iter().enumerate() {
                st.eval();
                let mine = transcript::frame_transcript(b, &mut prev);
                let theirs = &answers[i + 1];
                let theirs_rd = answers.get(1 + cases.len() + i).cloned().unwrap_or_default();
                let same_rd = if mine == "Err" { theirs_rd == "Err" } else { !theirs_rd.is_empty() && theirs_rd != "Err" && mine.starts_with(norm(&theirs_rd)) };
                if !same_rd {
                    let (max, ints) = sched(i, b);
                    st.fail(Failure {
                        sig: "C20/reader_differs".into(),
                        msg: format!("the std build decodes {} to `{}`; the alloc-only build, reading it in fragments of {max} byte(s) with `Interrupted` at read call(s) {ints:?}, gives `{}`", bits::hex(b), short_s(&mine), short_s(&theirs_rd)),
                        replay: json!({"kind": "reader_nostd", "hex": bits::hex(b), "max": max, "interrupts": ints}),
                    });
                } else if !sched(i, b).1.is_empty() {
                    st.class("alloc-only reader with an interrupted read");
                }
                if mine != "Err" {
                    st.nontrivial(b);
                    st.class("accepted frame");
                } else {
                    st.class("rejected frame");
                }
                if norm(&mine) != norm(theirs) && !st.failures.contains_key("C20/frame_differs") {
                    // re-check in isolation (the pairing line depends on the previous report)
                    let solo = transcript::frame_transcript(b, &mut None);
                    let r = worker.ask(&["R".into(), format!("F {}", bits::hex(b))]);
                    let (sig, hexes) = if norm(&solo) != norm(&r[1]) { ("C20/frame_differs", vec![bits::hex(b)]) } else { ("C20/pairing_differs", cases[..=i].iter().map(|x| bits::hex(x)).collect()) };
                    st.fail(Failure { sig: sig.into(), msg: format!("std and alloc-only builds disagree on frame {}: {}", bits::hex(b), first_diff(&mine, theirs)), replay: json!({"kind":"frame","hex":bits::hex(b),"batch":hexes}) });
                    let _ = worker.ask(&["R".into()]);
                    prev = None;
                } else if norm(&mine) != norm(theirs) {
                    st.failures.get_mut("C20/frame_differs").unwrap().1 += 1;
                }
                if mine != "Err" {
                    if let Some(m) = serde_frame(b) {
                        st.fail(Failure { sig: "C20/serde_frame".into(), msg: format!("{m} (frame {})", bits::hex(b)), replay: json!({"kind":"frame","hex":bits::hex(b)}) });
                    }
                }
                if st.samples.len() < 3 && mine != "Err" && done % 5000 == 0 {
                    st.samples.push(json!({"frame": bits::hex(b), "transcript_lines": mine.lines().count()}));
                }
            }
            done += batch as u64;
        }
        // ---- tracker histories (no time ops: the alloc-only build has no clock)
        let strat = tracker::scenario_s(40, true);
        let mut runner = TestRunner::new(Config { cases: nhist / WORKERS as u32, failure_persistence: None, rng_seed: RngSeed::Fixed(runner_seed(ctx.seed, 0x2000, w as u64)), max_shrink_iters: 1500, ..Config::default() });
        let cell = std::cell::RefCell::new((worker, Stats::default(), true));
        let res = runner.run(&strat, |s| {
            let (frames, rx, range, waits) = history_frames(&s);
            let mine = std_transcript(&frames, rx, range, &waits);
            let mut c = cell.borrow_mut();
            let theirs = c.0.ask(&[history_req(&frames, rx, range)]).pop().unwrap_or_default();
            if c.2 {
                c.1.eval();
                if mine.contains("pos=Some") {
                    c.1.nontrivial(&format!("{s:?}"));
                    c.1.class("history with a published position");
                } else {
                    c.1.class("history without a position");
                }
                if c.1.samples.len() < 2 && frames.len() > 3 && frames.len() < 9 && mine.contains("pos=Some") {
                    c.1.samples.push(json!({"history_frames": frames.iter().map(|f| bits::hex(f)).collect::<Vec<_>>(), "rx": [rx.0, rx.1], "range": range}));
                }
            }
            if norm(&mine) != norm(&theirs) {
                c.2 = false;
                return Err(TestCaseError::fail("C20/history_differs"));
            }
            if let Some(_m) = serde_tracker(&frames, rx, range) {
                c.2 = false;
                return Err(TestCaseError::fail("C20/serde_tracker"));
            }
            Ok(())
        });
        let (mut worker, l, _) = cell.into_inner();
        st.merge(l);
        if let Err(TestError::Fail(reason, s)) = res {
            let sig = reason.message().to_string();
            let (frames, rx, range, waits) = history_frames(&s);
            let msg = if sig == "C20/serde_tracker" {
                serde_tracker(&frames, rx, range).unwrap_or_default()
            } else {
                let mine = std_transcript(&frames, rx, range, &waits);
                let theirs = worker.ask(&[history_req(&frames, rx, range)]).pop().unwrap_or_default();
                first_diff(&mine, &theirs)
            };
            st.fail(Failure { sig, msg: format!("{msg}; frames {:?}", frames.iter().map(|f| bits::hex(f)).collect::<Vec<_>>()), replay: json!({"kind":"history","frames":frames.iter().map(|f| bits::hex(f)).collect::<Vec<_>>(),"rx_lat":rx.0,"rx_lon":rx.1,"range":range,"waits_s":waits}) });
        }
    });
    st.notes.insert("worker".into(), json!("harness/vworker: libraries built with default-features = false, features = [\"alloc\"]"));
    // ---- a long flight of one aircraft (its track grows with every report): the final state of
    // the std build equals that of the alloc-only build
    {
        let n = ctx.tier.pick(6_000usize, 30_000);
        let frames = tracker::flight_frames(n);
        let std_final = transcript::history_final(&frames, (52.0, 4.0), 500.0);
        let mut worker = Worker::spawn();
        let req = format!("HF 52 4 500 {}", frames.iter().map(|f| bits::hex(f)).collect::<Vec<_>>().join(","));
        let ans = worker.ask(&[req]);
        st.evaluations += n as u64;
        st.nontrivial_enum += 1;
        st.class("long flight, final state in both builds");
        if let Some(a) = ans.first() {
            if norm(a) != norm(&std_final) {
                st.fail(Failure { sig: "C20/long_flight_differs".into(), msg: format!("after {n} position reports of one aircraft the final tracker state differs between the builds: {}", first_diff(&std_final, a)), replay: json!({"kind": "long_flight", "n": n}) });
            }
        }
    }
    finish(
        ctx,
        st,
        "structured frames in all length modes and proptest-generated tracker histories (no time ops) are run through the same transcript code twice: in this process (std + serde build) and in a child process that links the libraries built alloc-only; transcripts (Ok/Err, checksum, Debug, Display, calculate(), get_position in both orders, after every history step a dump of every record, track, details, all_position, to_string) must be byte-identical; with serde: frame and tracker-state round trips through JSON preserve the Debug text (time stamps included) and the future behaviour; non-trivial = accepted frame / history that publishes a position; distinct by hash",
        &["prune() and the time stamps do not exist in the alloc-only build and are outside the differential", "JSON (serde_json) is the only serialization format exercised"],
        vec![],
    )
}
