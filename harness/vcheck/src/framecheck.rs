//! Per-frame comparison of the library against the reference decoder, with bit-level shrinking.
use crate::bits;
use crate::core::*;
use crate::refdec::{self, Expect, Fields};
use adsb_deku::Frame;
use serde_json::{json, Value};
use std::panic::{catch_unwind, AssertUnwindSafe};

pub enum Decoded {
    Ok(Frame),
    Err(String),
    Panic(String),
}

thread_local! {
    pub static LAST_PANIC_LOC: std::cell::RefCell<String> = const { std::cell::RefCell::new(String::new()) };
}

/// Install a quiet panic hook that records the location (used in signatures/messages).
pub fn install_quiet_panic_hook() {
    std::panic::set_hook(Box::new(|info| {
        let loc = info.location().map(|l| format!("{}:{}", l.file().rsplit('/').next().unwrap_or(""), l.line())).unwrap_or_default();
        let msg = if let Some(s) = info.payload().downcast_ref::<&str>() {
            s.to_string()
        } else if let Some(s) = info.payload().downcast_ref::<String>() {
            s.clone()
        } else {
            String::new()
        };
        LAST_PANIC_LOC.with(|l| *l.borrow_mut() = format!("{loc} {msg}"));
        if std::env::var("VERIF_SHOW_PANICS").is_ok() {
            eprintln!("panic at {loc}: {msg}");
        }
    }));
}

/// for fuzz targets: install the hook on the first call only (libFuzzer's own abort-on-panic hook
/// is replaced, the oracle's panic!() at the end of the target still aborts through the default path)
pub fn install_quiet_panic_hook_once() {
    static ONCE: std::sync::Once = std::sync::Once::new();
    ONCE.call_once(|| {
        let default = std::panic::take_hook();
        std::panic::set_hook(Box::new(move |info| {
            let msg = if let Some(s) = info.payload().downcast_ref::<&str>() {
                s.to_string()
            } else if let Some(s) = info.payload().downcast_ref::<String>() {
                s.clone()
            } else {
                String::new()
            };
            if msg.starts_with("VERIF-FAIL") {
                // the oracle's verdict: let libFuzzer's hook print it and abort
                default(info);
            } else {
                let loc = info.location().map(|l| format!("{}:{}", l.file().rsplit('/').next().unwrap_or(""), l.line())).unwrap_or_default();
                LAST_PANIC_LOC.with(|l| *l.borrow_mut() = format!("{loc} {msg}"));
            }
        }));
    });
}

pub fn last_panic() -> String {
    LAST_PANIC_LOC.with(|l| l.borrow().clone())
}

pub fn decode(buf: &[u8]) -> Decoded {
    match catch_unwind(AssertUnwindSafe(|| Frame::from_bytes(buf))) {
        Ok(Ok(f)) => Decoded::Ok(f),
        Ok(Err(e)) => Decoded::Err(format!("{e:?}")),
        Err(_) => Decoded::Panic(last_panic()),
    }
}

/// Result of comparing one frame: list of (signature, message)
pub type Sigs = Vec<(String, String)>;

/// Compare the fields selected by `want`.  Acceptance mismatches are not this function's
/// business (C02 decides them) and are reported through the return flag only.
/// Returns (failures, accepted_and_compared).
pub fn compare_fields(pid: &str, buf: &[u8], want: &dyn Fn(&str) -> bool) -> (Sigs, bool) {
    let exp = refdec::expected(buf);
    let class = refdec::class_of(buf);
    let dec = decode(buf);
    match (exp, dec) {
        (_, Decoded::Panic(p)) => (vec![(format!("{pid}/panic/{class}"), format!("decode panicked: {p}"))], false),
        (Expect::Accept(e), Decoded::Ok(frame)) => {
            let act = match catch_unwind(AssertUnwindSafe(|| refdec::actual(&frame))) {
                Ok(a) => a,
                Err(_) => return (vec![(format!("{pid}/panic/{class}"), format!("calculate() panicked: {}", last_panic()))], false),
            };
            let mut sigs = diff_sigs(pid, &class, &e, &act, want);
            // The same fields when the frame is decoded from a reader instead of a slice: the frame
            // sits a few bytes into a longer stream and arrives two bytes per read call (a sample:
            // one frame in eight, chosen by its content).
            if sigs.is_empty() && buf.iter().fold(0u32, |a, b| a.wrapping_mul(31).wrapping_add(*b as u32)) % 8 == 0 {
                use crate::readercheck::{Scripted, Step};
                let off = 3 + (buf[buf.len() - 1] % 9) as usize;
                let mut stream = vec![0x8du8; off];
                stream.extend_from_slice(buf);
                // ... and, for the formats whose frames the decoder reads completely, the same frame
                // once more right behind it (a capture read frame by frame from one reader)
                let df = buf[0] >> 3;
                let twice = buf.len() == bits::required_len(df) && !matches!(df, 19 | 20);
                if twice {
                    stream.extend_from_slice(buf);
                }
                let script: [Step; 0] = [];
                let r = catch_unwind(AssertUnwindSafe(|| {
                    let mut rd = Scripted::at(&stream, off, &script, 2);
                    let first = Frame::from_reader(&mut rd).ok().map(|f| refdec::actual(&f));
                    let second = if twice { Some(Frame::from_reader(&mut rd).ok().map(|f| refdec::actual(&f))) } else { None };
                    (first, second)
                }));
                let (r, second) = match r {
                    Ok((a, b)) => (Ok(a), b),
                    Err(e) => (Err(e), None),
                };
                match second {
                    Some(Some(act3)) => {
                        for (sg, m) in diff_sigs(pid, &class, &e, &act3, want) {
                            sigs.push((sg.replacen(&format!("{pid}/"), &format!("{pid}/from_reader/second_frame/"), 1), format!("the frame right behind a copy of itself in one reader: {m}")));
                        }
                    }
                    Some(None) => sigs.push((format!("{pid}/from_reader/second_frame/rejected/{class}"), "two copies of the frame in one reader: the first decodes, the second does not".to_string())),
                    None => {}
                }
                match r {
                    Ok(Some(act2)) => {
                        for (sg, m) in diff_sigs(pid, &class, &e, &act2, want) {
                            sigs.push((sg.replacen(&format!("{pid}/"), &format!("{pid}/from_reader/"), 1), format!("decoded from a reader ({off} bytes into the stream, 2 bytes per read): {m}")));
                        }
                    }
                    Ok(None) => sigs.push((format!("{pid}/from_reader/rejected/{class}"), format!("the frame decodes from a slice, but not from a reader ({off} bytes into the stream, 2 bytes per read)"))),
                    Err(_) => sigs.push((format!("{pid}/from_reader/panic/{class}"), format!("from_reader panicked: {}", last_panic()))),
                }
            }
            (sigs, true)
        }
        // a frame the statement says is accepted, but the library rejects it: the fields this
        // property is about are not delivered at all
        (Expect::Accept(_), Decoded::Err(e)) => (vec![(format!("{pid}/rejected/{class}"), format!("frame must be accepted but decode returned Err({e})"))], false),
        _ => (vec![], false),
    }
}

pub fn diff_sigs(pid: &str, class: &str, e: &Fields, act: &Fields, want: &dyn Fn(&str) -> bool) -> Sigs {
    let mut out = vec![];
    let calc_absent = e.get("me.calc") == Some(&refdec::Val::Absent);
    for (k, ev, av) in refdec::diff(e, act, want) {
        if k.starts_with("me.calc.") && calc_absent {
            continue;
        }
        out.push((format!("{pid}/{k}/{class}"), format!("field {k}: expected {ev}, decoded {av}")));
    }
    out
}

/// Greedy bit-level shrink toward all-zero / shorter tail while `sig` is still produced.
pub fn shrink_frame(buf: &[u8], sig: &str, eval: &dyn Fn(&[u8]) -> Sigs) -> Vec<u8> {
    let mut cur = buf.to_vec();
    let still = |b: &[u8]| eval(b).iter().any(|(s, _)| s == sig);
    // drop tail bytes
    while cur.len() > 1 {
        let t = &cur[..cur.len() - 1];
        if still(t) {
            cur.pop();
        } else {
            break;
        }
    }
    // zero whole bytes, then single bits
    for i in 0..cur.len() {
        if cur[i] != 0 {
            let mut t = cur.clone();
            t[i] = 0;
            if still(&t) {
                cur = t;
            }
        }
    }
    for bit in 1..=cur.len() * 8 {
        if bits::get(&cur, bit, 1) == 1 {
            let mut t = cur.clone();
            bits::flip(&mut t, bit);
            if still(&t) {
                cur = t;
            }
        }
    }
    cur
}

/// Evaluate one frame, record stats and (shrunk) failures.
pub fn run_case(st: &mut Stats, check: &str, buf: &[u8], eval: &dyn Fn(&[u8]) -> Sigs) -> bool {
    st.eval();
    let sigs = eval(buf);
    let failed = !sigs.is_empty();
    for (sig, msg) in sigs {
        if st.failures.contains_key(&sig) {
            st.failures.get_mut(&sig).unwrap().1 += 1;
            continue;
        }
        let small = shrink_frame(buf, &sig, eval);
        let msg2 = eval(&small).into_iter().find(|(s, _)| *s == sig).map(|x| x.1).unwrap_or(msg);
        st.fail(Failure {
            sig: sig.clone(),
            msg: format!("{msg2} (frame {})", bits::hex(&small)),
            replay: json!({"kind": "frame", "check": check, "hex": bits::hex(&small), "original_hex": bits::hex(buf)}),
        });
    }
    failed
}

/// First use under contention: each job is a set of frames that a fresh child process decodes as
/// its very first act, every frame on its own thread, all threads released together (anything the
/// library sets up lazily at first use is set up under contention).  The child's Debug text of
/// each frame must equal the text this process gets for the same bytes.  Returns the first
/// difference: (job index, frame index, text here, text in the child).
pub fn first_use_contention(jobs: &[Vec<Vec<u8>>]) -> Option<(usize, usize, String, String)> {
    use std::io::Write;
    let mut out: Vec<Option<(usize, usize, String, String)>> = vec![];
    std::thread::scope(|sc| {
        let hs: Vec<_> = (0..WORKERS)
            .map(|w| {
                sc.spawn(move || {
                    let mut bad = None;
                    for (ji, frames) in jobs.iter().enumerate() {
                        if ji % WORKERS != w || bad.is_some() {
                            continue;
                        }
                        let Ok(exe) = std::env::current_exe() else { continue };
                        let Ok(mut child) = std::process::Command::new(exe).arg("helper").stdin(std::process::Stdio::piped()).stdout(std::process::Stdio::piped()).stderr(std::process::Stdio::null()).spawn() else { continue };
                        let req = json!({"cmd": "firstdecode", "frames": frames.iter().map(|b| bits::hex(b)).collect::<Vec<_>>()});
                        if let Some(mut si) = child.stdin.take() {
                            let _ = si.write_all(req.to_string().as_bytes());
                        }
                        let Ok(o) = child.wait_with_output() else { continue };
                        let Ok(v) = serde_json::from_slice::<Value>(&o.stdout) else { continue };
                        for (k, b) in frames.iter().enumerate() {
                            let Some(got) = v["texts"][k].as_str() else { continue };
                            let here = match std::panic::catch_unwind(|| adsb_deku::Frame::from_bytes(b)) {
                                Ok(Ok(f)) => format!("crc={:06x} {f:?}", f.crc),
                                Ok(Err(_)) => "Err".to_string(),
                                Err(_) => continue,
                            };
                            if got != here {
                                bad = Some((ji, k, here, got.to_string()));
                                break;
                            }
                        }
                    }
                    bad
                })
            })
            .collect();
        for h in hs {
            out.push(h.join().unwrap_or(None));
        }
    });
    out.into_iter().flatten().next()
}

/// replay of a first-use case: the same frames to 400 fresh processes
pub fn replay_first_use(pid: &str, v: &Value) -> Vec<Failure> {
    let frames: Vec<Vec<u8>> = v.get("frames").and_then(|x| x.as_array()).map(|a| a.iter().filter_map(|h| h.as_str().and_then(bits::unhex)).collect()).unwrap_or_default();
    let jobs: Vec<Vec<Vec<u8>>> = (0..400).map(|_| frames.clone()).collect();
    match first_use_contention(&jobs) {
        Some((_, k, here, there)) => vec![Failure { sig: format!("{pid}/first_use_race"), msg: format!("frame {} decoded as the first act of a fresh process, beside {} other threads doing the same: `{}`; decoded here: `{}`", bits::hex(&frames[k]), frames.len() - 1, short_txt(&there), short_txt(&here)), replay: v.clone() }],
        None => vec![],
    }
}

fn short_txt(s: &str) -> String {
    s.chars().take(220).collect()
}
