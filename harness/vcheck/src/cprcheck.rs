//! C05: CPR global decoding — truth round trip through a reference encoder, raw quadruples,
//! and the complete NL table observed through the public API.
use crate::bits;
use crate::core::*;
use crate::framecheck::last_panic;
use crate::refcpr::{self, RefDecode};
use adsb_deku::cpr::{get_position, Position};
use adsb_deku::{Altitude, CPRFormat};
use proptest::test_runner::TestRng;
use serde_json::{json, Value};
use std::panic::{catch_unwind, AssertUnwindSafe};

const GUARD: f64 = 1e-7; // the library's table is given to 8 decimals

pub fn report(parity: u32, yz: u32, xz: u32) -> Altitude {
    // everything besides parity and the two CPR words is without influence on the pairing: the
    // type code (accuracy category, it changes in flight), the time bit and the altitude vary
    // with the content, so that the two reports of a pair usually differ in them
    let h = (yz as u64).wrapping_mul(0x9e37_79b9_7f4a_7c15).wrapping_add(xz as u64 * 31 + parity as u64).rotate_left(17);
    let tcs = [9u8, 10, 11, 12, 13, 14, 15, 16, 17, 18, 20, 21, 22, 0];
    let mut a = Altitude { odd_flag: if parity == 0 { CPRFormat::Even } else { CPRFormat::Odd }, lat_cpr: yz, lon_cpr: xz, ..Altitude::default() };
    a.tc = tcs[(h % tcs.len() as u64) as usize];
    a.t = (h >> 8) & 1 == 1;
    a.alt = if (h >> 9) % 5 == 0 { None } else { Some(((h >> 12) % 50_000) as u16) };
    a
}

fn call(first: &Altitude, second: &Altitude) -> Result<Option<Position>, String> {
    catch_unwind(AssertUnwindSafe(|| get_position((first, second)))).map_err(|_| last_panic())
}

#[derive(Clone, Debug)]
pub struct TruthCase {
    pub lat: f64,
    pub lon: f64,
    pub bearing: f64,
    pub d_nm: f64,
    /// parity of the first (older) report
    pub first_parity: u32,
}

fn region(lat: f64, lon: f64) -> &'static str {
    if lat.abs() > 87.0 {
        "polar"
    } else if refcpr::near_transition(lat) < 0.07 {
        "transition"
    } else if lon.abs() > 179.9 {
        "antimeridian"
    } else if lat.abs() < 0.06 {
        "equator"
    } else {
        "general"
    }
}

/// returns (failures, nontrivial(expected Some), dontcare)
pub fn eval_truth(c: &TruthCase) -> (Vec<(String, String)>, bool, bool) {
    let p1 = (c.lat, c.lon);
    let p2 = refcpr::destination(p1, c.bearing, c.d_nm * 1.852);
    let a = c.first_parity;
    let b = 1 - a;
    let (yz1, xz1, _) = refcpr::encode(p1.0, p1.1, a);
    let (yz2, xz2, _) = refcpr::encode(p2.0, p2.1, b);
    let first = report(a, yz1, xz1);
    let second = report(b, yz2, xz2);
    let (e, o) = if a == 0 { ((yz1, xz1), (yz2, xz2)) } else { ((yz2, xz2), (yz1, xz1)) };
    let rd = refcpr::decode(e.0, e.1, o.0, o.1, b);
    let cls = format!("{}/{}", region(p2.0, p2.1), if a == 0 { "even_first" } else { "odd_first" });
    let mut out = vec![];
    let got = match call(&first, &second) {
        Ok(g) => g,
        Err(p) => {
            out.push((format!("C05/truth/panic/{cls}"), format!("get_position panicked: {p}")));
            return (out, false, false);
        }
    };
    // guard band around transition latitudes
    let (re, ro) = match rd {
        RefDecode::Pos { rlat_e, rlat_o, .. } | RefDecode::ZoneMismatch { rlat_e, rlat_o } => (rlat_e, rlat_o),
        _ => (p1.0, p2.0),
    };
    if refcpr::near_transition(re) < GUARD || refcpr::near_transition(ro) < GUARD {
        return (out, false, true);
    }
    match rd {
        RefDecode::ZoneMismatch { .. } => {
            if let Some(p) = got {
                out.push((format!("C05/truth/must_be_none/{cls}"), format!("even and odd reports lie in different longitude-zone counts, yet a position ({}, {}) was returned", p.latitude, p.longitude)));
            }
            (out, false, false)
        }
        RefDecode::LatOutOfRange | RefDecode::OtherLatOutOfRange => (out, false, true), // cannot happen for reports <= 3 NM apart
        RefDecode::Pos { lat, lon, .. } => {
            let Some(p) = got else {
                out.push((format!("C05/truth/must_be_some/{cls}"), "consistent pair of one aircraft yields no position".into()));
                return (out, true, false);
            };
            let dl = refcpr::dlat(b);
            let n = refcpr::nl(lat).saturating_sub(b).max(1);
            let dlon = 360.0 / n as f64;
            let tol_lat = dl / 262144.0 + 1e-9;
            let tol_lon = dlon / 262144.0 + 1e-9;
            if (p.latitude - p2.0).abs() > tol_lat {
                out.push((format!("C05/truth/lat_error/{cls}"), format!("latitude {} differs from the true {} by more than the quantisation error {tol_lat}", p.latitude, p2.0)));
            }
            // at the poles longitude is meaningless only if |lat| == 90 exactly
            if p2.0.abs() < 90.0 && refcpr::lon_diff(p.longitude, p2.1) > tol_lon {
                out.push((format!("C05/truth/lon_error/{cls}"), format!("longitude {} differs from the true {} by more than the quantisation error {tol_lon}", p.longitude, p2.1)));
            }
            if (p.latitude - lat).abs() > 1e-9 || refcpr::lon_diff(p.longitude, lon) > 1e-9 {
                out.push((format!("C05/truth/ref_decode/{cls}"), format!("position ({}, {}) differs from the exact global decode ({lat}, {lon})", p.latitude, p.longitude)));
            }
            if !(-90.0..=90.0).contains(&p.latitude) || !(p.longitude >= -180.0 && p.longitude < 180.0) {
                out.push((format!("C05/truth/range/{cls}"), format!("position ({}, {}) outside [-90,90] x [-180,180)", p.latitude, p.longitude)));
            }
            let (ry, rx, _) = refcpr::encode(p.latitude, p.longitude, b);
            if (ry, rx) != (yz2, xz2) {
                out.push((format!("C05/truth/reencode/{cls}"), format!("returned position re-encodes to ({ry}, {rx}), the second report carries ({yz2}, {xz2})")));
            }
            (out, true, false)
        }
    }
}

fn truth_replay(c: &TruthCase) -> Value {
    json!({"kind":"cpr_truth","lat":c.lat,"lon":c.lon,"bearing":c.bearing,"d_nm":c.d_nm,"first_parity":c.first_parity})
}

fn shrink_truth(c: &TruthCase, sig: &str) -> TruthCase {
    let still = |t: &TruthCase| eval_truth(t).0.iter().any(|(s, _)| s == sig);
    let mut cur = c.clone();
    let round = |x: f64, d: i32| {
        let m = 10f64.powi(d);
        (x * m).round() / m
    };
    for _ in 0..3 {
        for d in [0, 1, 2, 3, 4, 6] {
            let mut t = cur.clone();
            t.lat = round(cur.lat, d);
            if t.lat != cur.lat && still(&t) {
                cur = t;
                break;
            }
        }
        for d in [0, 1, 2, 3, 4, 6] {
            let mut t = cur.clone();
            t.lon = round(cur.lon, d);
            if t.lon != cur.lon && still(&t) {
                cur = t;
                break;
            }
        }
        for v in [0.0, 1.0, 2.0, 3.0] {
            let mut t = cur.clone();
            t.d_nm = v;
            if t.d_nm != cur.d_nm && still(&t) {
                cur = t;
                break;
            }
        }
        for v in [0.0, 90.0, 180.0, 270.0] {
            let mut t = cur.clone();
            t.bearing = v;
            if t.bearing != cur.bearing && still(&t) {
                cur = t;
                break;
            }
        }
    }
    cur
}

fn gen_truth(rng: &mut TestRng, trans: &[f64]) -> TruthCase {
    let sgn = |rng: &mut TestRng| if rng.chance(1, 2) { 1.0 } else { -1.0 };
    let mut exact_origin = false;
    let (lat, lon) = match rng.below(11) {
        10 => {
            // exactly on a CPR grid origin: the report of one parity carries 0 in one or both fields
            exact_origin = true;
            let k = rng.below(15) as f64;
            let even = rng.chance(1, 2);
            let lat = (sgn(rng) * if even { 6.0 * k } else { 360.0 / 59.0 * k }).clamp(-90.0, 90.0);
            let nl = refcpr::nl(lat) as f64;
            let zones = if even { nl.max(1.0) } else { (nl - 1.0).max(1.0) };
            let lon = match rng.below(4) {
                0 => 0.0,
                1 => -180.0,
                _ => {
                    let m = rng.below(zones as u64) as f64;
                    let l = 360.0 / zones * m;
                    if l >= 180.0 {
                        l - 360.0
                    } else {
                        l
                    }
                }
            };
            (lat, lon)
        }
        0 | 1 | 2 => {
            // uniform on the sphere
            let z = rng.range_f64(-1.0, 1.0);
            (z.asin().to_degrees(), rng.range_f64(-180.0, 180.0))
        }
        3 => {
            let l = match rng.below(4) {
                0 => 90.0,
                1 => 87.0,
                _ => rng.range_f64(87.0, 90.0),
            };
            (sgn(rng) * l, rng.range_f64(-180.0, 180.0))
        }
        4 => (rng.range_f64(-1e-4, 1e-4), rng.range_f64(-180.0, 180.0)),
        5 => {
            let base = if rng.chance(1, 2) { sgn(rng) * 180.0 } else { 0.0 };
            let mut lo = base + rng.range_f64(-1e-3, 1e-3);
            if lo >= 180.0 {
                lo -= 360.0;
            }
            if lo < -180.0 {
                lo += 360.0;
            }
            (rng.range_f64(-85.0, 85.0), lo)
        }
        6 | 7 => {
            let t = *rng.pick(trans);
            (sgn(rng) * (t + rng.range_f64(-0.06, 0.06)).clamp(0.0, 90.0), rng.range_f64(-180.0, 180.0))
        }
        8 => {
            // multiples of the latitude zone sizes
            let k = rng.below(15) as f64;
            let base = if rng.chance(1, 2) { 6.0 * k } else { 360.0 / 59.0 * k };
            (sgn(rng) * (base + rng.range_f64(-1e-4, 1e-4)).clamp(0.0, 90.0), rng.range_f64(-180.0, 180.0))
        }
        _ => (rng.range_f64(-90.0, 90.0), rng.range_f64(-180.0, 180.0)),
    };
    let d_nm = match if exact_origin { rng.below(2) * 3 } else { rng.below(5) } {
        0 => 0.0,
        1 => 3.0,
        2 => rng.range_f64(2.9, 3.0),
        _ => rng.range_f64(0.0, 3.0),
    };
    TruthCase { lat, lon, bearing: rng.range_f64(0.0, 360.0), d_nm, first_parity: rng.below(2) as u32 }
}

// ---- raw quadruples ------------------------------------------------------------------------

/// returns (failures, nontrivial, dontcare); `pe`/`po` are the parities of first and second
pub fn eval_raw(first: (u32, u32, u32), second: (u32, u32, u32)) -> (Vec<(String, String)>, bool, bool) {
    let f = report(first.0, first.1, first.2);
    let s = report(second.0, second.1, second.2);
    let mut out = vec![];
    let got = match call(&f, &s) {
        Ok(g) => g,
        Err(p) => {
            out.push(("C05/raw/panic".to_string(), format!("get_position panicked: {p}")));
            return (out, false, false);
        }
    };
    if first.0 == second.0 {
        if let Some(p) = got {
            out.push(("C05/raw/equal_parity".to_string(), format!("two reports of equal parity yield a position ({}, {})", p.latitude, p.longitude)));
        }
        return (out, false, false);
    }
    let (e, o) = if first.0 == 0 { (first, second) } else { (second, first) };
    let rd = refcpr::decode(e.1, e.2, o.1, o.2, second.0);
    let ord = if first.0 == 0 { "even_first" } else { "odd_first" };
    match rd {
        RefDecode::LatOutOfRange => {
            if let Some(p) = got {
                out.push((format!("C05/raw/lat_out_of_range/{ord}"), format!("the latest report's recovered latitude is outside [-90, 90], yet a position ({}, {}) was returned", p.latitude, p.longitude)));
            }
            (out, true, false)
        }
        RefDecode::OtherLatOutOfRange => (out, false, true),
        RefDecode::ZoneMismatch { rlat_e, rlat_o } => {
            // a recovered latitude on a transition latitude (within the guard band) is left open
            if refcpr::near_transition(rlat_e) < GUARD || refcpr::near_transition(rlat_o) < GUARD {
                return (out, false, true);
            }
            if let Some(p) = got {
                out.push((format!("C05/raw/zone_mismatch/{ord}"), format!("even and odd recovered latitudes have unequal longitude-zone counts, yet a position ({}, {}) was returned", p.latitude, p.longitude)));
            }
            (out, true, false)
        }
        RefDecode::Pos { lat, lon, rlat_e, rlat_o } => {
            if refcpr::near_transition(rlat_e) < GUARD || refcpr::near_transition(rlat_o) < GUARD {
                return (out, false, true);
            }
            // whether a consistent garbage pair must yield Some is left open
            if let Some(p) = got {
                if !(-90.0..=90.0).contains(&p.latitude) || !(p.longitude >= -180.0 && p.longitude < 180.0) {
                    out.push((format!("C05/raw/range/{ord}"), format!("position ({}, {}) outside [-90,90] x [-180,180)", p.latitude, p.longitude)));
                }
                if (p.latitude - lat).abs() > 1e-9 || refcpr::lon_diff(p.longitude, lon) > 1e-9 {
                    out.push((format!("C05/raw/ref_decode/{ord}"), format!("position ({}, {}) differs from the exact global decode ({lat}, {lon})", p.latitude, p.longitude)));
                }
                let (ry, rx, _) = refcpr::encode(p.latitude, p.longitude, second.0);
                if (ry, rx) != (second.1, second.2) {
                    out.push((format!("C05/raw/reencode/{ord}"), format!("returned position re-encodes to ({ry}, {rx}), the second report carries ({}, {})", second.1, second.2)));
                }
                (out, true, false)
            } else {
                (out, false, true)
            }
        }
    }
}

fn shrink_raw(first: (u32, u32, u32), second: (u32, u32, u32), sig: &str) -> ((u32, u32, u32), (u32, u32, u32)) {
    let still = |a: (u32, u32, u32), b: (u32, u32, u32)| eval_raw(a, b).0.iter().any(|(s, _)| s == sig);
    let (mut a, mut b) = (first, second);
    for _ in 0..2 {
        for bit in (0..17).rev() {
            for which in 0..4 {
                let (mut a2, mut b2) = (a, b);
                let r = match which {
                    0 => &mut a2.1,
                    1 => &mut a2.2,
                    2 => &mut b2.1,
                    _ => &mut b2.2,
                };
                if *r & (1 << bit) != 0 {
                    *r &= !(1 << bit);
                    if still(a2, b2) {
                        a = a2;
                        b = b2;
                    }
                }
            }
        }
    }
    (a, b)
}

// ---- NL table through the public API ---------------------------------------------------------

/// probe one zone latitude: parity i, zone index j, yz.  Returns (failures, counted, dontcare)
pub fn eval_nl_probe(i: u32, j: u32, yz: u32) -> (Vec<(String, String)>, bool, bool) {
    let mut rlat = refcpr::dlat(i) * (j as f64 + yz as f64 / refcpr::NB);
    if rlat >= 270.0 {
        rlat -= 360.0;
    }
    if !(-90.0..=90.0).contains(&rlat) {
        return (vec![], false, false);
    }
    // the other parity's encoding of the same latitude
    let (yz_other, _, _) = refcpr::encode(rlat, 0.0, 1 - i);
    let latest = report(i, yz, 65536);
    let other = report(1 - i, yz_other, 65536);
    let (e, o) = if i == 0 { (yz, yz_other) } else { (yz_other, yz) };
    let rd = refcpr::decode(e, 65536, o, 65536, i);
    let mut out = vec![];
    let got = match call(&other, &latest) {
        Ok(g) => g,
        Err(p) => {
            out.push(("C05/nl/panic".to_string(), format!("get_position panicked: {p}")));
            return (out, false, false);
        }
    };
    match rd {
        RefDecode::Pos { lat, lon, rlat_e, rlat_o } => {
            if refcpr::near_transition(rlat_e) < GUARD || refcpr::near_transition(rlat_o) < GUARD {
                return (out, false, true);
            }
            if (lat - rlat).abs() > 1e-9 {
                // the self-pair did not decode back to the probed zone (can happen only at +-90)
                return (out, false, true);
            }
            let nlv = refcpr::nl(lat);
            match got {
                None => out.push((format!("C05/nl/none/NL{nlv:02}"), format!("probe at latitude {lat} (parity {i}) yields no position; expected longitude {lon}"))),
                Some(p) => {
                    if refcpr::lon_diff(p.longitude, lon) > 1e-9 || (p.latitude - lat).abs() > 1e-9 {
                        out.push((format!("C05/nl/zone_count/NL{nlv:02}"), format!("probe at latitude {lat} (parity {i}): longitude {} reveals a zone count other than NL={nlv} (expected longitude {lon})", p.longitude)));
                    }
                }
            }
            (out, true, false)
        }
        RefDecode::ZoneMismatch { rlat_e, rlat_o } => {
            if refcpr::near_transition(rlat) < GUARD || refcpr::near_transition(rlat_e) < GUARD || refcpr::near_transition(rlat_o) < GUARD {
                return (out, false, true);
            }
            if let Some(p) = got {
                out.push(("C05/nl/straddle_must_be_none".to_string(), format!("probe at latitude {rlat} (parity {i}): even/odd recovered latitudes straddle a transition, yet ({}, {}) was returned", p.latitude, p.longitude)));
            }
            (out, true, false)
        }
        _ => (out, false, true),
    }
}

pub fn replay_c05(v: &Value) -> Vec<Failure> {
    let g = |k: &str| v.get(k).and_then(|x| x.as_f64()).unwrap_or(0.0);
    let gu = |k: &str| v.get(k).and_then(|x| x.as_u64()).unwrap_or(0) as u32;
    let sigs = match v.get("kind").and_then(|k| k.as_str()) {
        Some("cpr_truth") => eval_truth(&TruthCase { lat: g("lat"), lon: g("lon"), bearing: g("bearing"), d_nm: g("d_nm"), first_parity: gu("first_parity") }).0,
        Some("cpr_raw") => {
            let t = |k: &str| {
                let a = v.get(k).and_then(|x| x.as_array()).cloned().unwrap_or_default();
                let n = |i: usize| a.get(i).and_then(|x| x.as_u64()).unwrap_or(0) as u32;
                (n(0), n(1), n(2))
            };
            eval_raw(t("first"), t("second")).0
        }
        Some("cpr_nl") => eval_nl_probe(gu("parity"), gu("zone"), gu("yz")).0,
        Some("pair_nostd") => {
            let a = v.get("first").and_then(|h| h.as_str()).and_then(bits::unhex).unwrap_or_default();
            let b = v.get("second").and_then(|h| h.as_str()).and_then(bits::unhex).unwrap_or_default();
            let mut worker = crate::configs::Worker::spawn();
            let answers = worker.ask(&["R".to_string(), format!("F {}", bits::hex(&a)), format!("F {}", bits::hex(&b))]);
            let theirs = answers.get(2).and_then(|t| t.lines().find(|l| l.starts_with("PAIR ")).map(|l| l.to_string()));
            let mine = crate::configs::pair_line_std(&a, &b);
            let raw = |f: &[u8]| report(bits::get(f, 32 + 22, 1) as u32, bits::get(f, 32 + 23, 17) as u32, bits::get(f, 32 + 40, 17) as u32);
            let mut out = vec![];
            if a.len() >= 11 && b.len() >= 11 {
                let (ra, rb) = (raw(&a), raw(&b));
                let want = format!("PAIR {:?} {:?}", get_position((&ra, &rb)), get_position((&rb, &ra)));
                if mine.as_deref() != Some(want.as_str()) {
                    out.push(("C05/frame_pairing".to_string(), format!("decoded from their frames the reports pair to `{}`, their CPR words pair to `{want}`", mine.clone().unwrap_or_else(|| "nothing (a report was refused)".into()))));
                }
            }
            if theirs != mine {
                out.push(("C05/no_std/pairing".to_string(), format!("this build gives `{}`, the alloc-only build gives `{}`", mine.unwrap_or_default(), theirs.unwrap_or_default())));
            }
            out
        }
        Some("cold_start") => {
            let t = |k: &str| {
                let a = v.get(k).and_then(|x| x.as_array()).cloned().unwrap_or_default();
                let n = |i: usize| a.get(i).and_then(|x| x.as_u64()).unwrap_or(0) as u32;
                (n(0), n(1), n(2))
            };
            cold_start_pair(t("first"), t("second"))
        }
        _ => vec![],
    };
    sigs.into_iter().map(|(sig, msg)| Failure { sig, msg, replay: v.clone() }).collect()
}

/// Cold start: the pair is the first thing a fresh process gives to the CPR decoder; the answer
/// must be the one this (warm) process gets.  Returns (sig, msg) per difference.
pub fn cold_start_pair(first: (u32, u32, u32), second: (u32, u32, u32)) -> Vec<(String, String)> {
    use std::io::Write;
    let Ok(exe) = std::env::current_exe() else { return vec![] };
    let Ok(mut child) = std::process::Command::new(exe).arg("helper").stdin(std::process::Stdio::piped()).stdout(std::process::Stdio::piped()).stderr(std::process::Stdio::null()).spawn() else { return vec![] };
    let req = json!({"cmd": "firstpair", "pair": [[first.0, first.1, first.2], [second.0, second.1, second.2]]});
    if let Some(mut si) = child.stdin.take() {
        let _ = si.write_all(req.to_string().as_bytes());
    }
    let Ok(o) = child.wait_with_output() else { return vec![] };
    let Ok(v) = serde_json::from_slice::<Value>(&o.stdout) else { return vec![] };
    let a = report(first.0, first.1, first.2);
    let b = report(second.0, second.1, second.2);
    let warm = |x: &Altitude, y: &Altitude| match catch_unwind(AssertUnwindSafe(|| get_position((x, y)))) {
        Ok(p) => format!("{p:?}"),
        Err(_) => "panic".to_string(),
    };
    let mut out = vec![];
    for (key, here) in [("ab", warm(&a, &b)), ("ba", warm(&b, &a))] {
        let Some(there) = v[key].as_str() else { continue };
        if there != here {
            out.push(("C05/cold_start".to_string(), format!("pairing {first:?} with {second:?} ({}) as the first act of a fresh process gives `{there}`, in a process that has decoded before it gives `{here}`", if key == "ab" { "in this order" } else { "in the other order" })));
        }
    }
    out
}

pub fn run_c05(ctx: &Ctx) -> ! {
    let n_truth = ctx.tier.pick(600_000u64, 120_000_000);
    let n_raw = ctx.tier.pick(600_000u64, 120_000_000);
    let trans = refcpr::transitions();
    let trans = &trans;
    let mut st = parallel(|w, st| {
        let mut rng = ctx.rng(5, w as u64);
        // A: truth round trip
        for i in 0..n_truth / WORKERS as u64 {
            let c = gen_truth(&mut rng, trans);
            st.eval();
            let (sigs, nontrivial, dc) = eval_truth(&c);
            let p2 = refcpr::destination((c.lat, c.lon), c.bearing, c.d_nm * 1.852);
            st.class(&format!("A:{}", region(p2.0, p2.1)));
            if c.lat < 0.0 {
                st.class("A:southern");
            }
            if c.d_nm >= 2.9 {
                st.class("A:d>=2.9NM");
            }
            if dc {
                st.dontcare += 1;
            }
            if nontrivial {
                st.nontrivial(&(c.lat.to_bits(), c.lon.to_bits(), c.bearing.to_bits(), c.d_nm.to_bits(), c.first_parity));
                st.class("A:expected Some");
            } else if !dc {
                st.class("A:expected None (zone mismatch)");
            }
            if i % 60_000 == 3 {
                st.sample(truth_replay(&c));
            }
            for (sig, msg) in sigs {
                if st.failures.contains_key(&sig) {
                    st.failures.get_mut(&sig).unwrap().1 += 1;
                    continue;
                }
                let small = shrink_truth(&c, &sig);
                let msg2 = eval_truth(&small).0.into_iter().find(|(s, _)| *s == sig).map(|x| x.1).unwrap_or(msg);
                st.fail(Failure { sig, msg: format!("{msg2} [{small:?}]"), replay: truth_replay(&small) });
            }
        }
        // B: raw quadruples
        for i in 0..n_raw / WORKERS as u64 {
            let pf = rng.below(2) as u32;
            let ps = if rng.chance(1, 8) { pf } else { 1 - pf };
            let mut first = (pf, rng.bits(17) as u32, rng.bits(17) as u32);
            let mut second = (ps, rng.bits(17) as u32, rng.bits(17) as u32);
            if pf != ps && i % 16 == 3 {
                // exact ties of the zone-index rounding: 59 YZ0 - 60 YZ1 = -65536 (2t + 1), i.e. the
                // argument of floor(x + 1/2) is exactly -(t + 1/2) (how a tie is broken differs
                // between floor(x + 1/2) and round-half-away-from-zero); likewise for the longitude index
                let t = rng.below(30) as i64;
                let rhs = 65536 * (2 * t + 1);
                let lo_min = (rhs + 59) / 60;
                let base = (rhs % 59 + 59) % 59; // YZ1 = rhs (mod 59) because 60 = 1 (mod 59)
                let kmax = (131071 - base) / 59;
                let yz1 = base + 59 * (rng.below(kmax as u64 + 1) as i64);
                let yz0 = (60 * yz1 - rhs) / 59;
                if yz1 >= lo_min && (0..131072).contains(&yz0) && (60 * yz1 - rhs) % 59 == 0 {
                    let (e, o) = if pf == 0 { (&mut first, &mut second) } else { (&mut second, &mut first) };
                    e.1 = yz0 as u32;
                    o.1 = yz1 as u32;
                    st.class("B:latitude index tie");
                }
            }
            st.eval();
            let (sigs, nontrivial, dc) = eval_raw(first, second);
            if dc {
                st.dontcare += 1;
            }
            if pf == ps {
                st.class("B:equal parity");
            } else if nontrivial {
                st.nontrivial(&(first, second));
                st.class("B:decided");
            }
            if i % 90_000 == 5 {
                st.sample(json!({"kind":"cpr_raw","first":[first.0, first.1, first.2],"second":[second.0, second.1, second.2]}));
            }
            for (sig, msg) in sigs {
                if st.failures.contains_key(&sig) {
                    st.failures.get_mut(&sig).unwrap().1 += 1;
                    continue;
                }
                let (a, b) = shrink_raw(first, second, &sig);
                let msg2 = eval_raw(a, b).0.into_iter().find(|(s, _)| *s == sig).map(|x| x.1).unwrap_or(msg);
                st.fail(Failure { sig, msg: format!("{msg2} [first {a:?}, second {b:?}]"), replay: json!({"kind":"cpr_raw","first":[a.0,a.1,a.2],"second":[b.0,b.1,b.2]}) });
            }
        }
        // C: every reachable zone latitude, both parities
        for i in 0..2u32 {
            for j in 0..(60 - i) {
                for yz in 0..131072u32 {
                    if (yz as usize + j as usize) % WORKERS != w {
                        continue;
                    }
                    let (sigs, counted, dc) = eval_nl_probe(i, j, yz);
                    if counted {
                        st.eval();
                        st.nontrivial_enum += 1;
                    }
                    if dc {
                        st.dontcare += 1;
                    }
                    for (sig, msg) in sigs {
                        st.fail(Failure { sig, msg, replay: json!({"kind":"cpr_nl","parity":i,"zone":j,"yz":yz}) });
                    }
                }
            }
        }
    });
    // ---- cold start: pairs that are the first thing a fresh process decodes (a decoder that
    // remembers anything must start from a state that answers nothing): the equator, the poles,
    // the zone-grid origins, both sides of NL transitions, and random pairs
    {
        let mut rng = ctx.rng(55, 0);
        let mut pairs: Vec<((u32, u32, u32), (u32, u32, u32))> = vec![];
        for xz in [0u32, 1, 65536, 131071, 40000] {
            pairs.push(((0, 0, xz), (1, 0, xz)));
            pairs.push(((1, 0, xz), (0, 0, xz)));
            pairs.push(((0, 0, xz), (1, 1, xz)));
            pairs.push(((0, 1, xz), (1, 0, xz)));
            pairs.push(((0, 131071, xz), (1, 131071, xz)));
        }
        for (lat, lon) in [(90.0f64, 0.0f64), (-90.0, 10.0), (87.0, 20.0), (-87.0, -20.0), (0.0, 0.0), (0.0, 180.0), (1e-9, -1e-9), (52.0, 4.0), (10.4712, 30.0), (-10.4712, 30.0), (83.9918, 5.0), (84.0, 5.0)] {
            let e = refcpr::encode(lat, lon, 0);
            let o = refcpr::encode(lat, lon, 1);
            pairs.push(((0, e.0, e.1), (1, o.0, o.1)));
            pairs.push(((1, o.0, o.1), (0, e.0, e.1)));
        }
        for _ in 0..ctx.tier.pick(24usize, 2000) {
            let (lat, lon) = (rng.below(1800) as f64 / 10.0 - 90.0, rng.below(3600) as f64 / 10.0 - 180.0);
            let e = refcpr::encode(lat, lon, 0);
            let o = refcpr::encode(lat, lon, 1);
            pairs.push(((0, e.0, e.1), (1, o.0, o.1)));
        }
        let results: Vec<Vec<(String, String, Value)>> = {
            let pairs = &pairs;
            let mut out = vec![];
            std::thread::scope(|sc| {
                let hs: Vec<_> = (0..WORKERS)
                    .map(|w| {
                        sc.spawn(move || {
                            let mut v = vec![];
                            for (i, (a, b)) in pairs.iter().enumerate() {
                                if i % WORKERS != w {
                                    continue;
                                }
                                for (sig, msg) in cold_start_pair(*a, *b) {
                                    v.push((sig, msg, json!({"kind": "cold_start", "first": [a.0, a.1, a.2], "second": [b.0, b.1, b.2]})));
                                }
                            }
                            v
                        })
                    })
                    .collect();
                for h in hs {
                    out.push(h.join().unwrap_or_default());
                }
            });
            out
        };
        st.evaluations += pairs.len() as u64;
        st.nontrivial_enum += pairs.len() as u64;
        st.class_n("pair decoded as the first act of a fresh process", pairs.len() as u64);
        for (sig, msg, replay) in results.into_iter().flatten() {
            if !st.failures.contains_key(&sig) {
                st.fail(Failure { sig, msg, replay });
            }
        }
    }
    // ---- the same pairings in the alloc-only (no_std) build, whose floating-point helpers are
    // another crate's: a sample of true positions over the whole sphere, both hemispheres, as
    // two DF17 squitters decoded and paired (both orders) by the worker process
    if std::env::var("VWORKER_BIN").is_ok() {
        let mut rng = ctx.rng(56, 0);
        let mut worker = crate::configs::Worker::spawn();
        let n = ctx.tier.pick(12_000usize, 400_000);
        let mut bad: Option<(String, Value)> = None;
        let mut bad_frame: Option<(String, Value)> = None;
        let alt_codes = [0x5d0u64, 0x000, 0x583, 0x687, 0x20a, 0xfff, 0x010, 0xc38];
        let mk = |parity: u32, yz: u32, xz: u32| -> Vec<u8> {
            let mut me = [0u8; 7];
            bits::set(&mut me, 1, 5, [11u64, 9, 18, 20, 22][(yz % 5) as usize]);
            // (altitude codes incl. "not available", Gillham codes above 65 535 ft and exactly 0 ft:
            // whatever the altitude, the report carries a position)
            bits::set(&mut me, 9, 12, alt_codes[((yz ^ xz) % 8) as usize]);
            bits::set(&mut me, 22, 1, parity as u64);
            bits::set(&mut me, 23, 17, yz as u64);
            bits::set(&mut me, 40, 17, xz as u64);
            crate::framegen::squitter(17, 5, 0x3c6586, &me)
        };
        let mut done = 0usize;
        while done < n {
            let mut reqs = vec![];
            let mut frames = vec![];
            for _ in 0..256 {
                let lat = rng.below(1_790_000) as f64 / 10_000.0 - 89.5;
                let lon = rng.below(3_600_000) as f64 / 10_000.0 - 180.0;
                let e = refcpr::encode(lat, lon, 0);
                let (lat2, lon2) = refcpr::destination((lat, lon), rng.below(360) as f64, rng.below(50) as f64 / 10.0);
                let o = refcpr::encode(lat2, lon2, 1);
                let (fe, fo) = (mk(0, e.0, e.1), mk(1, o.0, o.1));
                let (a, b) = if rng.chance(1, 2) { (fe, fo) } else { (fo, fe) };
                reqs.push("R".to_string());
                reqs.push(format!("F {}", bits::hex(&a)));
                reqs.push(format!("F {}", bits::hex(&b)));
                frames.push((a, b));
            }
            let answers = worker.ask(&reqs);
            for (i, (a, b)) in frames.iter().enumerate() {
                let theirs = answers.get(3 * i + 2).and_then(|t| t.lines().find(|l| l.starts_with("PAIR ")).map(|l| l.to_string()));
                let mine = crate::configs::pair_line_std(a, b);
                // the frame entry point must hand both reports to the pairing: a refused report,
                // or a report decoded with other CPR words, shows as a pairing that differs from
                // the one computed on the raw words
                let raw = |f: &[u8]| report(bits::get(f, 32 + 22, 1) as u32, bits::get(f, 32 + 23, 17) as u32, bits::get(f, 32 + 40, 17) as u32);
                let (ra, rb) = (raw(a), raw(b));
                let want = format!("PAIR {:?} {:?}", get_position((&ra, &rb)), get_position((&rb, &ra)));
                if mine.as_deref() != Some(want.as_str()) && bad_frame.is_none() {
                    bad_frame = Some((format!("the reports {} and {} decoded from their frames pair to `{}`, their CPR words pair to `{want}`", bits::hex(a), bits::hex(b), mine.clone().unwrap_or_else(|| "nothing (a report was refused)".into())), json!({"kind": "pair_nostd", "first": bits::hex(a), "second": bits::hex(b)})));
                }
                if theirs != mine && bad.is_none() {
                    bad = Some((format!("the pairing of {} and {}: this build gives `{}`, the alloc-only build gives `{}`", bits::hex(a), bits::hex(b), mine.clone().unwrap_or_default(), theirs.clone().unwrap_or_default()), json!({"kind": "pair_nostd", "first": bits::hex(a), "second": bits::hex(b)})));
                }
            }
            done += 256;
        }
        st.evaluations += done as u64;
        st.nontrivial_enum += done as u64;
        st.class_n("pairing in the alloc-only build", done as u64);
        if let Some((msg, replay)) = bad {
            st.fail(Failure { sig: "C05/no_std/pairing".into(), msg, replay });
        }
        if let Some((msg, replay)) = bad_frame {
            st.fail(Failure { sig: "C05/frame_pairing".into(), msg, replay });
        }
    }
    st.samples.push(json!({"kind":"cpr_nl","parity":0,"zone":8,"yz":70000,"meaning":"probe of even zone latitude 6*(8+70000/2^17) deg"}));
    st.exhaustive.push("all reachable zone latitudes (both parities, every zone index and 17-bit YZ with latitude in [-90,90]): observable longitude-zone count".into());
    let mut vac = vec![];
    let total_a = n_truth.max(1);
    for c in ["A:polar", "A:transition", "A:antimeridian", "A:southern", "A:d>=2.9NM"] {
        let n = st.classes.get(c).copied().unwrap_or(0);
        if n * 100 < total_a {
            vac.push(format!("class {c} below 1% ({n}/{total_a})"));
        }
    }
    finish(
        ctx,
        st,
        "A: true position (mixture: uniform sphere, polar cap incl. +-90, equator, antimeridian/prime meridian, within 0.06 deg of each NL transition, zone-size multiples) + displacement <= 3 NM, both reports produced by a reference CPR encoder, both orders; oracle: result within the quantisation error of the truth, equal to an exact integer-arithmetic global decode, re-encodes to the second report, None iff zone counts differ. B: uniform raw (parity, lat, lon) pairs; oracle: equal parity / zone mismatch / latest latitude out of range -> None, any returned position in range and re-encoding to the second report. C: every reachable zone latitude probed through get_position with lon_cpr = 65536 so that the returned longitude reveals the zone count. non-trivial: A expected Some, B decided (not don't-care), C probe counted; distinct by hash / enumeration",
        &[
            "NL reference: closed formula of DO-260B A.1.7.2; any recovered latitude within 1e-7 deg of a transition latitude is don't-care (the library's table has 8 decimals)",
            "whether a consistent but meaningless raw pair must yield Some is left open; if only the older report's latitude is out of range the verdict is left open",
        ],
        vac,
    )
}
