//! `vcheck helper`: expected values for the Python app checks, computed with the real libraries.
//! stdin: one JSON object; stdout: one JSON object.
use crate::bits;
use crate::tracker;
use adsb_deku::Frame;
use rsadsb_common::{Added, Airplanes};
use serde_json::{json, Value};
use std::io::Read;

pub fn main() -> ! {
    let mut s = String::new();
    let _ = std::io::stdin().read_to_string(&mut s);
    let v: Value = serde_json::from_str(&s).unwrap_or(Value::Null);
    let frames: Vec<Option<Vec<u8>>> = v.get("frames").and_then(|f| f.as_array()).map(|a| a.iter().map(|h| h.as_str().and_then(bits::unhex)).collect()).unwrap_or_default();
    let out = match v.get("cmd").and_then(|c| c.as_str()) {
        Some("framedump") => {
            let r: Vec<Value> = frames
                .iter()
                .map(|b| match b {
                    None => json!({"hex": false}),
                    Some(b) => {
                        if b.is_empty() || b.iter().all(|x| *x == 0) {
                            return json!({"hex": true, "all_zero": true});
                        }
                        match Frame::from_bytes(b) {
                            Ok(f) => json!({"hex": true, "ok": true, "text": f.to_string(), "df": b[0] >> 3}),
                            Err(_) => json!({"hex": true, "ok": false}),
                        }
                    }
                })
                .collect();
            json!({"frames": r})
        }
        Some("firstcrc") => {
            // every frame is decoded by its own thread, all released together: the very first
            // checksums of a process computed concurrently
            let n = frames.len();
            let ready = std::sync::Arc::new(std::sync::atomic::AtomicUsize::new(0));
            let go = std::sync::Arc::new(std::sync::atomic::AtomicBool::new(false));
            let hs: Vec<_> = frames
                .iter()
                .cloned()
                .map(|b| {
                    let (ready, go) = (ready.clone(), go.clone());
                    std::thread::spawn(move || {
                        // spin (no futex wake-up latency): all threads leave within a fraction of a microsecond
                        ready.fetch_add(1, std::sync::atomic::Ordering::SeqCst);
                        while !go.load(std::sync::atomic::Ordering::Acquire) {
                            std::hint::spin_loop();
                        }
                        match b.as_deref().map(Frame::from_bytes) {
                            Some(Ok(f)) => json!(f.crc),
                            _ => Value::Null,
                        }
                    })
                })
                .collect();
            while ready.load(std::sync::atomic::Ordering::SeqCst) < n {
                std::hint::spin_loop();
            }
            go.store(true, std::sync::atomic::Ordering::Release);
            let r: Vec<Value> = hs.into_iter().map(|h| h.join().unwrap_or(Value::Null)).collect();
            json!({"crcs": r})
        }
        Some("firstpair") => {
            // the first thing this process does with the CPR decoder: pair two position reports
            // (both orders); `pair` = [[parity, yz, xz], [parity, yz, xz]]
            let g = |i: usize, j: usize| v["pair"][i][j].as_u64().unwrap_or(0) as u32;
            let a = crate::cprcheck::report(g(0, 0), g(0, 1), g(0, 2));
            let b = crate::cprcheck::report(g(1, 0), g(1, 1), g(1, 2));
            let one = |x: &adsb_deku::Altitude, y: &adsb_deku::Altitude| match std::panic::catch_unwind(|| adsb_deku::cpr::get_position((x, y))) {
                Ok(p) => format!("{p:?}"),
                Err(_) => "panic".to_string(),
            };
            json!({"ab": one(&a, &b), "ba": one(&b, &a)})
        }
        Some("firstdecode") => {
            // as "firstcrc", for any kind of frame: the Debug text (every decoded field) of the
            // first frames a process decodes, each on its own thread, all released together
            let n = frames.len();
            let ready = std::sync::Arc::new(std::sync::atomic::AtomicUsize::new(0));
            let go = std::sync::Arc::new(std::sync::atomic::AtomicBool::new(false));
            let hs: Vec<_> = frames
                .iter()
                .cloned()
                .map(|b| {
                    let (ready, go) = (ready.clone(), go.clone());
                    std::thread::spawn(move || {
                        ready.fetch_add(1, std::sync::atomic::Ordering::SeqCst);
                        while !go.load(std::sync::atomic::Ordering::Acquire) {
                            std::hint::spin_loop();
                        }
                        match b.as_deref().map(Frame::from_bytes) {
                            Some(Ok(f)) => json!(format!("crc={:06x} {f:?}", f.crc)),
                            Some(Err(_)) => json!("Err"),
                            None => Value::Null,
                        }
                    })
                })
                .collect();
            while ready.load(std::sync::atomic::Ordering::SeqCst) < n {
                std::hint::spin_loop();
            }
            go.store(true, std::sync::atomic::Ordering::Release);
            let r: Vec<Value> = hs.into_iter().map(|h| h.join().unwrap_or(Value::Null)).collect();
            json!({"texts": r})
        }
        Some("debugdump") => {
            // Debug text (every decoded field) and checksum of each frame, decoded in list order
            let r: Vec<Value> = frames
                .iter()
                .map(|b| match b {
                    Some(b) => match Frame::from_bytes(b) {
                        Ok(f) => json!(format!("{f:?}")),
                        Err(_) => json!("Err"),
                    },
                    None => json!("nohex"),
                })
                .collect();
            json!({"frames": r})
        }
        Some("trackdump") => {
            let rx = (v["rx"][0].as_f64().unwrap_or(0.0), v["rx"][1].as_f64().unwrap_or(0.0));
            let range = v["range"].as_f64().unwrap_or(500.0);
            let limit_df17 = v["limit_parsing"].as_bool().unwrap_or(false);
            let mut p = Airplanes::new();
            let mut total = 0u64;
            let mut most = 0usize;
            let mut steps = vec![];
            for b in frames.iter().flatten() {
                if b.is_empty() || b.iter().all(|x| *x == 0) {
                    continue;
                }
                if limit_df17 && (b[0] >> 3) != 17 {
                    continue;
                }
                if let Ok(f) = Frame::from_bytes(b) {
                    // "newly added" is judged by the tracked set, not by the tracker's own answer
                    let before = p.len();
                    let a = p.action(f, rx, range);
                    if p.len() > before {
                        total += 1;
                    }
                    most = most.max(p.len());
                    steps.push(json!({"added": a == Added::Yes, "len": p.len()}));
                }
            }
            json!({"dump": tracker::dump(&p), "total_added": total, "most": most, "steps": steps})
        }
        _ => json!({"error": "unknown cmd"}),
    };
    println!("{out}");
    std::process::exit(0)
}
