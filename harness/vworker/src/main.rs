#[path = "../../shared/transcript.rs"]
mod transcript;
use std::io::{BufRead, Write};

fn unhex(s: &str) -> Vec<u8> {
    (0..s.len() / 2).filter_map(|i| u8::from_str_radix(&s[2 * i..2 * i + 2], 16).ok()).collect()
}

/// a reader over `data` that hands out at most `max` bytes per call and reports `Interrupted`
/// (consuming nothing) at the listed read calls
struct Scripted<'a> {
    data: &'a [u8],
    pos: usize,
    max: usize,
    interrupts: &'a [usize],
    reads: usize,
}

impl no_std_io2::io::Read for Scripted<'_> {
    fn read(&mut self, buf: &mut [u8]) -> no_std_io2::io::Result<usize> {
        let call = self.reads;
        self.reads += 1;
        if self.interrupts.contains(&call) {
            return Err(no_std_io2::io::Error::new(no_std_io2::io::ErrorKind::Interrupted, "transient"));
        }
        let avail = self.data.len().saturating_sub(self.pos);
        let k = self.max.max(1).min(buf.len()).min(avail);
        buf[..k].copy_from_slice(&self.data[self.pos..self.pos + k]);
        self.pos += k;
        Ok(k)
    }
}

impl no_std_io2::io::Seek for Scripted<'_> {
    fn seek(&mut self, p: no_std_io2::io::SeekFrom) -> no_std_io2::io::Result<u64> {
        use no_std_io2::io::SeekFrom;
        let np: i64 = match p {
            SeekFrom::Start(x) => x as i64,
            SeekFrom::End(x) => self.data.len() as i64 + x,
            SeekFrom::Current(x) => self.pos as i64 + x,
        };
        if np < 0 {
            return Err(no_std_io2::io::Error::new(no_std_io2::io::ErrorKind::InvalidInput, "seek before start"));
        }
        self.pos = np as usize;
        Ok(self.pos as u64)
    }
}

/// protocol, one case per line:  `RD <max> <call,call,...|-> <hex>` decodes through the scripted reader;  `F <hex>`  |  `H <rxlat> <rxlon> <range> <hex>,<hex>,...`
/// answer: one line, the transcript with '\n' escaped as '\x1f'
fn main() {
    let stdin = std::io::stdin();
    let stdout = std::io::stdout();
    let mut out = stdout.lock();
    let mut prev = None;
    for line in stdin.lock().lines() {
        let Ok(line) = line else { break };
        let t = if let Some(h) = line.strip_prefix("F ") {
            transcript::frame_transcript(&unhex(h.trim()), &mut prev)
        } else if let Some(r) = line.strip_prefix("H ") {
            let mut it = r.split(' ');
            let lat: f64 = it.next().and_then(|x| x.parse().ok()).unwrap_or(0.0);
            let lon: f64 = it.next().and_then(|x| x.parse().ok()).unwrap_or(0.0);
            let range: f64 = it.next().and_then(|x| x.parse().ok()).unwrap_or(0.0);
            let frames: Vec<Vec<u8>> = it.next().unwrap_or("").split(',').filter(|x| !x.is_empty()).map(unhex).collect();
            transcript::history_transcript(&frames, (lat, lon), range)
        } else if let Some(r) = line.strip_prefix("HF ") {
            let mut it = r.split(' ');
            let lat: f64 = it.next().and_then(|x| x.parse().ok()).unwrap_or(0.0);
            let lon: f64 = it.next().and_then(|x| x.parse().ok()).unwrap_or(0.0);
            let range: f64 = it.next().and_then(|x| x.parse().ok()).unwrap_or(0.0);
            let frames: Vec<Vec<u8>> = it.next().unwrap_or("").split(',').filter(|x| !x.is_empty()).map(unhex).collect();
            transcript::history_final(&frames, (lat, lon), range)
        } else if let Some(r) = line.strip_prefix("RD ") {
            let mut it = r.split(' ');
            let max: usize = it.next().and_then(|x| x.parse().ok()).unwrap_or(1);
            let interrupts: Vec<usize> = it.next().unwrap_or("-").split(',').filter_map(|x| x.parse().ok()).collect();
            let data = unhex(it.next().unwrap_or("").trim());
            let mut rd = Scripted { data: &data, pos: 0, max, interrupts: &interrupts, reads: 0 };
            match adsb_deku::Frame::from_reader(&mut rd) {
                Err(_) => "Err".to_string(),
                Ok(f) => format!("Ok crc={:06x}\nDEBUG {:?}\nDISPLAY {}\n", f.crc, f, f),
            }
        } else if line == "R" {
            prev = None;
            "reset".to_string()
        } else {
            "?".to_string()
        };
        let _ = writeln!(out, "{}", t.replace('\n', "\x1f"));
        let _ = out.flush();
    }
}
