#[path = "../../shared/transcript.rs"]
mod transcript;
use std::io::{BufRead, Write};

fn unhex(s: &str) -> Vec<u8> {
    (0..s.len() / 2).filter_map(|i| u8::from_str_radix(&s[2 * i..2 * i + 2], 16).ok()).collect()
}

/// protocol, one case per line:  `F <hex>`  |  `H <rxlat> <rxlon> <range> <hex>,<hex>,...`
/// answer: one line, the transcript with '\n' escaped as '\x1f'
fn main() {
    let stdin = std::io::stdin();
    let stdout = std::io::stdout();
    let mut out = stdout.lock();
    let mut prev = None;
    for line in stdin.lock().lines() {
        let Ok(line) = line else { break };
        let t = if let Some(h) = line.strip_prefix("F ") {
            transcript::frame_transcript(&unhex(h.trim()), &mut prev)
        } else if let Some(r) = line.strip_prefix("H ") {
            let mut it = r.split(' ');
            let lat: f64 = it.next().and_then(|x| x.parse().ok()).unwrap_or(0.0);
            let lon: f64 = it.next().and_then(|x| x.parse().ok()).unwrap_or(0.0);
            let range: f64 = it.next().and_then(|x| x.parse().ok()).unwrap_or(0.0);
            let frames: Vec<Vec<u8>> = it.next().unwrap_or("").split(',').filter(|x| !x.is_empty()).map(unhex).collect();
            transcript::history_transcript(&frames, (lat, lon), range)
        } else if let Some(r) = line.strip_prefix("HF ") {
            let mut it = r.split(' ');
            let lat: f64 = it.next().and_then(|x| x.parse().ok()).unwrap_or(0.0);
            let lon: f64 = it.next().and_then(|x| x.parse().ok()).unwrap_or(0.0);
            let range: f64 = it.next().and_then(|x| x.parse().ok()).unwrap_or(0.0);
            let frames: Vec<Vec<u8>> = it.next().unwrap_or("").split(',').filter(|x| !x.is_empty()).map(unhex).collect();
            transcript::history_final(&frames, (lat, lon), range)
        } else if line == "R" {
            prev = None;
            "reset".to_string()
        } else {
            "?".to_string()
        };
        let _ = writeln!(out, "{}", t.replace('\n', "\x1f"));
        let _ = out.flush();
    }
}
