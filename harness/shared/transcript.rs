// Shared by vcheck (std + serde build of the libraries) and vworker (alloc-only build):
// everything observable through the public API, rendered to text.  No std-only API is used.
use adsb_deku::adsb::ME;
use adsb_deku::{cpr, Altitude, Frame, DF};
use rsadsb_common::{Added, Airplanes};

fn position_of(f: &Frame) -> Option<Altitude> {
    let me = match &f.df {
        DF::ADSB(a) => &a.me,
        DF::TisB { cf, .. } => &cf.me,
        _ => return None,
    };
    match me {
        ME::AirbornePositionBaroAltitude(a) | ME::AirbornePositionGNSSAltitude(a) => Some(*a),
        _ => None,
    }
}

pub fn frame_transcript(bytes: &[u8], prev: &mut Option<Altitude>) -> String {
    match Frame::from_bytes(bytes) {
        Err(_) => "Err".to_string(),
        Ok(f) => {
            let mut s = format!("Ok crc={:06x}\nDEBUG {:?}\nDISPLAY {}\n", f.crc, f, f);
            let me = match &f.df {
                DF::ADSB(a) => Some(&a.me),
                DF::TisB { cf, .. } => Some(&cf.me),
                _ => None,
            };
            if let Some(ME::AirborneVelocity(v)) = me {
                s += &format!("CALC {:?}\n", v.calculate());
            }
            if let Some(p) = position_of(&f) {
                if let Some(q) = prev {
                    s += &format!("PAIR {:?} {:?}\n", cpr::get_position((q, &p)), cpr::get_position((&p, q)));
                }
                *prev = Some(p);
            }
            s
        }
    }
}

pub fn tracker_dump(p: &Airplanes) -> String {
    let mut s = format!("len={} empty={}\n", p.len(), p.is_empty());
    for (k, st) in p.iter() {
        let c = &st.coords;
        s += &format!(
            "{k}: n={} cs={:?} hdg={:?} spd={:?} vs={:?} sq={:?} gnd={:?} pos={:?} dist={:?} slots={:?}/{:?}\n",
            st.num_messages,
            st.callsign,
            st.heading,
            st.speed,
            st.vert_speed,
            st.squawk,
            st.on_ground,
            c.position,
            c.kilo_distance,
            c.altitudes[0],
            c.altitudes[1]
        );
        match &st.track {
            None => s += "  track=None\n",
            Some(t) => {
                s += &format!("  track[{}]:", t.len());
                for e in t {
                    s += &format!(" ({:?},{:?},{:?},{:?})", e.position, e.kilo_distance, e.altitudes[0].map(|a| (a.lat_cpr, a.lon_cpr, a.alt)), e.altitudes[1].map(|a| (a.lat_cpr, a.lon_cpr, a.alt)));
                }
                s += "\n";
            }
        }
        match p.aircraft_details(*k) {
            None => s += "  details=None\n",
            Some(d) => s += &format!("  details pos={:?} alt={} dist={:?} hdg={:?} track={:?}\n", d.position, d.altitude, d.kilo_distance, d.heading, d.track.map(|t| t.len())),
        }
    }
    s += &format!("all_position={:?}\nto_string={}\n", p.all_position(), strip_last_time(&format!("{p}")));
    s
}

/// The std build's records carry `last_time` stamps that the alloc-only build does not have; they
/// show up in the Debug text inside `Airplanes::to_string()` and are removed before comparing.
pub fn strip_last_time(s: &str) -> String {
    let mut out = String::with_capacity(s.len());
    let mut rest = s;
    while let Some(i) = rest.find("last_time: ") {
        out.push_str(&rest[..i]);
        let after = &rest[i..];
        // skip up to the ", " that ends the field at nesting depth 0
        let mut depth = 0i32;
        let mut end = after.len();
        let b = after.as_bytes();
        let mut k = 0;
        while k < b.len() {
            match b[k] {
                b'(' | b'{' | b'[' => depth += 1,
                b')' | b'}' | b']' => {
                    if depth == 0 {
                        end = k;
                        break;
                    }
                    depth -= 1;
                }
                b',' if depth == 0 => {
                    end = (k + 2).min(b.len());
                    break;
                }
                _ => {}
            }
            k += 1;
        }
        rest = &after[end..];
    }
    out.push_str(rest);
    out
}

/// feed the frames, dumping after every step
pub fn history_transcript(frames: &[Vec<u8>], rx: (f64, f64), range: f64) -> String {
    history_transcript_with(frames, rx, range, &mut |_, _| {})
}

/// as above; `before(planes, i)` runs before frame i (the std side lets time pass there, which
/// must not change anything observable without `prune`)
pub fn history_transcript_with(frames: &[Vec<u8>], rx: (f64, f64), range: f64, before: &mut dyn FnMut(&mut Airplanes, usize)) -> String {
    let mut planes = Airplanes::new();
    let mut s = String::new();
    for (i, b) in frames.iter().enumerate() {
        before(&mut planes, i);
        match Frame::from_bytes(b) {
            Err(_) => s += &format!("#{i} Err\n"),
            Ok(f) => {
                let a = planes.action(f, rx, range);
                s += &format!("#{i} added={}\n", a == Added::Yes);
                s += &tracker_dump(&planes);
            }
        }
    }
    s
}

/// feed the frames, dump once at the end (long histories: the per-step dump would be quadratic)
pub fn history_final(frames: &[Vec<u8>], rx: (f64, f64), range: f64) -> String {
    let mut planes = Airplanes::new();
    let mut added = 0u32;
    for b in frames {
        if let Ok(f) = Frame::from_bytes(b) {
            if planes.action(f, rx, range) == Added::Yes {
                added += 1;
            }
        }
    }
    format!("added={added}\n{}", tracker_dump(&planes))
}
