#!/bin/bash
# tools/confirm_mutant.sh <PID> <i>   — confirm a sub-agent's seeded change in its scratch worktree:
#   with the patch: workspace compiles, the existing suite passes, the demo fails; without: the demo passes.
# Writes /tmp/mw/<PID>/mutants/m<i>.confirm.json
PID=$1; I=$2; D=${MW:-/tmp/mw2}/$PID; M=$D/mutants
export CARGO_NET_OFFLINE=true CARGO_BUILD_JOBS=6
cd "$D" || exit 2
git checkout -q -- . 2>/dev/null
res() { echo "{\"pid\":\"$PID\",\"i\":$I,\"applies\":$1,\"suite_pass\":$2,\"demo_fails_with\":$3,\"demo_passes_without\":$4}" > "$M/m$I.confirm.json"; cat "$M/m$I.confirm.json"; }
git apply --check "$M/m$I.diff" 2>/dev/null || { res false null null null; exit 1; }
git apply "$M/m$I.diff"
if cargo test --workspace --no-fail-fast --offline > "$M/m$I.suite.log" 2>&1; then SUITE=true; else SUITE=false; fi
( cd "$M/m${I}_demo" && bash "$M/m${I}_demo/run.sh" > "$M/m$I.demo_with.log" 2>&1 ); RC1=$?
git checkout -q -- .
( cd "$M/m${I}_demo" && bash "$M/m${I}_demo/run.sh" > "$M/m$I.demo_without.log" 2>&1 ); RC2=$?
[ $RC1 -ne 0 ] && W=true || W=false
[ $RC2 -eq 0 ] && WO=true || WO=false
res true $SUITE $W $WO
