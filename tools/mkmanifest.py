#!/usr/bin/env python3
"""Regenerate MANIFEST.json from the table below (keeps it schema-valid)."""
import json, sys, os
V = os.path.dirname(os.path.dirname(os.path.abspath(__file__)))

# id -> (level category, technique, level text, level note, design ref)
CHECKS = {
 "C04": ("exploration", "exhaustive field grids + generated frames vs. reference bit-field decoder (differential); exhaustive 2^24 text round trip",
         "Every CA/CF x DF x type-code cell and every value of frame bits 6-19 of the short/long surveillance formats is decoded with random fills and compared with an independent Annex-10 bit extractor; the address text round trip is enumerated completely. Exhaustive over each header field, sampled over the remaining payload bits.",
         "Trusts the harness's reference extractor (refdec.rs) and Annex 10 bit positions as quoted there; payload bits outside the enumerated field are sampled, not enumerated.", "3 C04"),
 "C06": ("exploration", "exhaustive enumeration of all altitude codes x carriers vs. independent Gillham/25ft reference (differential)",
         "All 8192 AC13 codes in DF0/4/16/20 and all 4096 AC12 codes in each of the 13 type codes under DF17 and DF18 are decoded with random surroundings and compared with a reference written from Annex 10; the code space is covered completely, the surroundings are sampled; every 13-bit code is also decoded right after each of its one-bit neighbours, and the first altitude codes of fresh processes are decoded by eight threads at once.",
         "Trusts refdec::ac13_ft/ac12_ft/gillham_ft; an altitude of exactly 0 ft may be shown as none or 0.", "3 C06"),
 "C07": ("exploration", "exhaustive 2^22 / 2^11 / 2^8 field sweeps vs. reference decoder and atan2/hypot velocity model",
         "Every direction/component word of both ground-speed subtypes, every vertical-rate word in every subtype, every GNSS-difference word and every NACv/flag word is decoded and compared field by field; calculate() is compared with an independent model, also in the alloc-only build; one frame in 32 through a serde round trip and against the reference text renderer; one long-lived tracker record receives a walk of 60 000 (1.5 million) reports that differ from their predecessor in one field group and must show the latest derived velocity.",
         "Trusts refdec::velocity_calc; naming polarity of the vertical-rate source bit follows the repository's pinned tests and is not asserted.", "3 C07"),
 "C08": ("exploration", "position x code enumeration + random strings vs. Annex 10 character table (differential)",
         "Every 6-bit code at every one of the 8 positions, every ordered pair of positions with 16 representative codes, every pair of codes at adjacent positions, every space/non-space pattern, and random strings, in all four carriers; the report shows the decoded call sign and category; one long-lived tracker record shows the latest identification and stays tracked through it, also when position reports (accepted or refused by the range check) follow.",
         "Interior spaces may be kept or dropped (statement only says padding is removed).", "3 C08"),
 "C09": ("exploration", "exhaustive enumeration of all 8192 identity codes x carriers vs. reference de-interleaver",
         "All identity codes in DF5, DF21 and type 28 under DF17/DF18 with random surroundings; the complete subtype x emergency x code product of type 28; every code also right after each of its 13 one-bit neighbours; the first identity codes of fresh processes decoded by eight threads at once; the report shows the four digits and the frame survives a serde JSON round trip for every code in every carrier; one frame in eight also through from_reader (mid-stream, fragmented, and behind a copy of itself).",
         "Trusts refdec::squawk_of.", "3 C09"),
 "C10": ("exploration", "walking-field / walking-one enumeration + generated frames vs. reference bit-field decoder (differential)",
         "Each field of each interpreted ME/MB layout takes every value (or edge + random values when wider than 12 bits) with all other bits random, under DF17, DF18 x CF 0..7, DF20, DF21; single-one payloads locate each bit's owner; the BDS dispatch byte is swept; every value of the 17-bit CPR fields and every joint value of two fields up to 10 (14) combined bits; one frame in eight also through from_reader.",
         "Trusts the DO-260B / ICAO 9871 layouts quoted in refdec.rs; type codes 1-4, 19, 28 and altitude codes are decided by C08, C07, C09, C06.", "3 C10"),
}

CHECKS.update({
 "C01": ("exploration", "random + structured byte strings, field sweeps, pair enumeration; crash / allocation oracle (catch_unwind, counting allocator, watchdog)",
         "Every buffer length 0..=32 with uniform and structured contents, every value of every narrow ME field, every 13-bit code, all ordered pairs of a pool of position reports; pattern-fill payloads (every 6-bit code / byte value repeated) under every type and BDS code; each accepted frame is rendered, decoded again through from_reader inside a longer stream (one in four), its velocity computed, paired in both orders and fed to a long-lived tracker with hostile receiver positions/ranges; one aircraft heard 150 000 times and one on a 20 000-report flight. The harness installs a log subscriber that enables every call site (as the clients do), so the arguments of the libraries' log statements are evaluated. No panic, bounded allocation per decode+render; a suspected hang is re-run three times under a CPU-time limit with its tracker context.",
         "Absence of a crash on 2^112 frames cannot be established; a suspected hang (60 s watchdog) is confirmed by three bounded re-runs, otherwise inconclusive (exit 2).", "3 C01"),
 "C02": ("exploration", "exhaustive DF x length grid + exhaustive type-31 reserved/version grid + generated frames; acceptance predicate + prefix metamorphic relation",
         "All 32 DF codes at all lengths 0..=32, the complete subtype x version x reserved-group grid of type 31, structured frames truncated / exact / over-long; accepted iff the statement says so, right variant, checksum over exactly the frame, tail bytes without influence; uniform all-zero / all-one buffers in every cell; from_reader on a reader positioned inside a stream gives the same verdict, variant and checksum.",
         "ME 13-14 != 0 in a surface operational status is left open (DO-260B reserves, library ignores).", "3 C02"),
 "C03": ("exploration", "differential vs bitwise polynomial division; constructed-parity frames; exhaustive error-pattern enumeration on base frames",
         "crc == remainder mod 0x1FFF409 on random, single-byte and double-byte frames; the three meanings on constructed frames (all 128 II codes); all error patterns of weight <= 3 (<= 5 thorough) and all bursts <= 24 bits with bounded interior weight (all 2^22 interiors thorough) on 10 valid base frames never give checksum 0; the checksum of a sample also in the alloc-only build (child process), through a serialize/deserialize round trip, and through a reader with one transient Interrupted before each of its first 18 read calls; no checksum for a buffer shorter than the frame; the address/parity formats show the same number behind 'ICAO Address:' in their text form; a format of which no constructed frame is reported at all is a violation.",
         "Error detection is enumerated over patterns, not over all base frames; patterns that turn the frame into a 56-bit or rejected frame are excluded.", "3 C03"),
 "C05": ("exploration", "round trip through a reference CPR encoder (inverse), exact integer reference decoder (differential), exhaustive zone-latitude probes",
         "True positions over the whole sphere (poles, equator, antimeridian, every NL transition) with displacements <= 3 NM in both orders decode to within the quantisation error and re-encode to the second report; raw pairs are rejected when inconsistent; every reachable zone latitude of both parities is probed for its longitude-zone count; a sample of pairings also computed by the alloc-only build (child process); the two reports of a pair differ in type code, time bit and altitude; pairs decoded as the first act of a fresh process (equator, poles, grid origins, transitions) must give the warm answer.",
         "NL reference = closed formula; recovered latitudes within 1e-7 deg of a transition are don't-care.", "3 C05"),
 "C11": ("exploration", "generated frames vs. independent template renderer (differential), validated against the 45 pinned strings of the test suite",
         "Every format/type/subtype with the renderer's branch conditions targeted; Display must equal the reference templates instantiated with the decoded frame's own fields; non-empty except DF19; every value of every printed numeric field is swept (all 1024 x 1024 velocity component pairs, rates, altitude and identity codes, target-state words); a sample is rendered by the alloc-only build (child process) and compared with the same template.",
         "The templates are those pinned by the README/test suite as re-implemented in render.rs; field correctness is C04-C10.", "3 C11"),
 "C12": ("exploration", "proptest histories (vec of ops + interpreter) vs reference tracker model; isolation metamorphic relation",
         "Histories of DF17/DF18 squitters of every payload kind (one in 16 with a flipped parity bit: decoded, checksum not zero) from 1-6 interleaved aircraft, non-squitter formats with the same addresses, waits (0.5 s to 2 h) and expiry; added flag, key set, message counts compared after every op; record(H) == record(H restricted to the aircraft); crowds of 700-2100 (70 000) distinct addresses incl. blocks of consecutive ones; one aircraft heard 90 000 (1.3 million) times; thin traffic in real time (an aircraft heard every 100 ms with expiry after every frame is never removed or re-added); generated histories interpreted by the alloc-only build (child process).",
         "Frames are real bytes decoded by the library; histories up to 40 ops.", "4 C12"),
 "C13": ("exploration", "proptest histories vs reference model with reference great-circle distance and CPR encoder",
         "Consistent flights, jumps around 100 km, positions at 0.99/1.01 x range, garbage CPR, repeated reports (also bit-identical ones, and the CPR words of another aircraft), eleven receiver sites (poles, antimeridian, equator, two with the same latitude, three within 100-700 km of the first), range limits incl. 40 075 km and infinity, the receiver moving within a history (directed: by 100 km and by exactly one odd longitude zone while an aircraft is tracked); publish/clear decision, stored reports (incl. altitude), distance and the published position list compared after every position report; deterministic flights across each of the 58 zone transitions in both hemispheres; crowds of 900 / 2500 (40 000) positioned aircraft.",
         "get_position is the pairing function (decided by C05), either argument order accepted; thresholds within 1e-6 are don't-care.", "4 C13"),
 "C14": ("exploration", "proptest histories; latest-wins model + invariants after every op",
         "Callsign/heading/speed/rate latest-wins; distance<=>position, all_position, details, track order, to_string checked for every record after every op (histories include the last report of a parity re-sent bit for bit); a 9 000 (40 000)-report flight of one aircraft whose track must equal the earlier publications; positioned crowds.",
         "Lenient: entries wiped by a clear may be absent from the track; consecutive duplicate entries collapsed.", "4 C14"),
 "C15": ("exploration", "proptest histories with a back-dating hook; model with exact ages",
         "Advance/Prune ops with ages in 0.5 s steps on both sides of T (incl. T = 0 and T near u64::MAX); surviving key set, untouched survivors (also with a track of thousands of entries), re-added aircraft start empty (no call sign, position, track or velocity), no re-add without expiry; thin traffic in real time; crowds of 300-3000 (70 000) aircraft of which every second one expires in one call.",
         "Uses the verif_hooks feature (Airplanes::verif_backdate); real elapsed time per case must stay below 0.3 s or the case is inconclusive.", "4 C15"),
 "C19": ("fault_enumeration", "exhaustive injection of transient read errors and short reads over the recorded call trace + proptest schedules; slice decode differential",
         "For frames of every accepted class and fragment sizes 64/1/2: 1-3 consecutive Interrupted before every read call and all pairs of injection points; runs of 70 and 300 Interrupted; random schedules; from_reader == from_bytes, repeatability, captures of several frames through one reader (a decode that does not come back is saved by a watchdog and confirmed by bounded re-runs), the same result when a frame is decoded first in a fresh process or after other frames in another fresh process, the same result right after a copy of the frame with one early bit flipped, and the same result from the alloc-only build (child process) reading fragments of 1-64 bytes with Interrupted at each of its first 14 read calls.",
         "The scripted reader consumes nothing on Interrupted (std semantics); hard I/O errors are out of scope.", "3 C19"),
 "C20": ("exploration", "differential std process vs alloc-only child process on generated frames and histories; serde JSON round trip",
         "Byte-identical transcripts (decode, render, velocity, pairing, full tracker dump after every step) between the std build and the libraries built with default-features=false, features=[alloc]; serde round trip of frames and tracker states incl. continued behaviour; constructed exact ties of the CPR zone-index rounding; every frame also through the alloc-only build's reader path with fragments of 1-14 bytes and transient Interrupted errors; addresses 000000 / ffffff and two addresses differing in the last octet in the histories.",
         "std-only time stamps are stripped from the transcript; serde_json with float_roundtrip is the only format exercised.", "3 C20"),
})

CHECKS.update({
 "C16": ("exploration", "Hypothesis-generated feeds x segmentations x delays x connection drops (FIN and RST) against the real binaries (pty/TCP/log black box); expected line sequence oracle",
         "Well-formed lines (incl. frames made of ff / 00 bytes, upper-case hex digits, the same line three times in a row) interleaved with 36 kinds of malformed line (every kind under every option set of both clients on every run), cut anywhere (also inside non-ASCII runs) with pauses on both sides of the 50 ms read timeout, one silence of 2.6 s per case in front of a line that is then split, 22 s without a byte on a connection that stays up, dropped at arbitrary byte offsets with and without --retry-tcp; the well-formed lines must be processed exactly once in order by both clients, the clients must survive, exit cleanly on disconnect or reconnect (also after the server was unreachable for 12 s, attempts timing out, or gone for 1, 4 and 9 s, attempts refused) and keep their aircraft and their statistics.",
         "Timing is requested, not controlled: the verdict never depends on measured time. Failures that depend on kernel scheduling may not reproduce on every replay (replay retries 5 times).", "5 C16"),
 "C17": ("exploration", "Hypothesis-generated operator sessions (keys, key bursts, SGR mouse, resizes, traffic, expiry, option sets) on a real pty; liveness / exit status / termios / escape-sequence oracle; CLI invalid-value grammar",
         "After every step the radar process must be alive without a panic; quit (q / Ctrl-C, also while waiting for the connection) must exit 0 with termios restored, mouse reporting off and the cursor visible; invalid option values (incl. arguments that are not UTF-8) must be clap usage errors. Swept on every run: the invalid-value grammar, every tab on 50- and 120-row and 160- and 250-column terminals, every listed kind of line that is not a frame on every tab, a feed that never pauses (other protocol, all-zero frames, noise, frames) and a reconnected feed (quiet or busy) followed by keys, a resize and every way of quitting, every pair of selection/view keys as one burst on every tab, every listed --scale and receiver position (NaN, inf, poles), expiry on every tab, 400 aircraft, a scrolled table whose aircraft all expire at once, 9-21 zoom steps with tracked aircraft, a silent / talking gpsd daemon while quitting, 150-key bursts on the waiting screen.",
         "Each step waits 120 ms for the event loop; the terminal is a pty driven by a minimal VT emulator, not a real terminal emulator.", "5 C17"),
 "C18": ("exploration", "Hypothesis-generated scenarios; screen (VT-emulated) vs tracker state computed by the real library (differential); map metamorphic relations (direction, proportionality, zoom, pan, reset)",
         "Airplanes tab rows and titles equal the tracker's records, Stats totals equal added events / peak count, markers lie on the correct side of the centre at proportional offsets (self-calibrated), view controls leave the tables unchanged and reset restores the map cell for cell; centring the view on an aircraft puts its marker at the canvas centre at every zoom level (also when a row without a position sorts first); receivers beyond 85 degrees of latitude; aircraft heard via DF18 or first heard with a status / target-state squitter; receiver position delivered by a gpsd server that also sends GST / SKY / no-fix reports; 'newly added' judged by the tracked set; expiry scenarios judged on radar's own logged processing times incl. a silent phase after which the screen must be empty without any key; thorough: a 10 050-frame aircraft.",
         "Expected table content is produced by rsadsb_common (helper) from the same frames; marker cells are recognised by colour with --disable-heading/--disable-track and attributed by place on a settled snapshot; screen/tracker differences count only if they persist for 5 s.", "5 C18"),
})
NOT_YET = {}
ALL = [f"C{i:02d}" for i in range(1, 21)]

def main():
    checks = []
    for pid in ALL:
        if pid not in CHECKS: continue
        cat, tech, text, note, ref = CHECKS[pid]
        checks.append({
            "property_id": pid,
            "quick_cmd": f"./check {pid} quick",
            "thorough_cmd": f"./check {pid} thorough",
            "evidence_file": f"/verif/evidence/{pid}.json",
            "replay_cmd_template": f"./check {pid} --replay {{path}}",
            "engine": "vcheck" if pid not in ("C16", "C17", "C18") else "pyharness",
            "level_claimed": {"category": cat, "text": text, "design_ref": f"DESIGN.md section {ref}"},
            "level_note": note,
            "technique": tech + ("; the saved cases and enumerated sub-domains repeated against the dev-profile binaries (debug assertions on)" if pid in ("C16", "C17", "C18") else "; second pass of the same check against a build with debug assertions on"),
        })
    na = [{"property_id": p, "reason": NOT_YET.get(p, "check not built yet in this revision of /verif (work in progress; see DESIGN.md)")} for p in ALL if p not in CHECKS]
    hooks_commits = [l.strip() for l in open(os.path.join(V, "hooks_commits.txt"))] if os.path.exists(os.path.join(V, "hooks_commits.txt")) else []
    m = {
        "version": 1,
        "setup_cmd": "./check --setup",
        "hooks": {
            "guard": "cargo feature `verif_hooks` of rsadsb_common",
            "enable": "the harness depends on rsadsb_common with features = [\"std\", \"serde\", \"verif_hooks\"] (harness/vcheck/Cargo.toml)",
            "baseline_off_cmd": "cd /repo && cargo test --workspace --no-fail-fast --offline",
            "source_commits": hooks_commits,
            "add_only": True,
        },
        "engines": [
            {"name": "vcheck", "path": "harness/vcheck", "serves_properties": [p for p in ALL if p in CHECKS and p not in ("C16","C17","C18")],
             "kind_free_text": "Rust binary: proptest 1.11 (TestRunner, fixed ChaCha seeds, shrinking), exhaustive enumerators, reference models; links the libraries from /repo's working tree by path"},
            {"name": "vworker", "path": "harness/vworker", "serves_properties": ["C03", "C07", "C11", "C12", "C14", "C19", "C20"],
             "kind_free_text": "differential partner process: same transcript code linked against the libraries built alloc-only (no std); scripted reader (fragments, transient Interrupted) over the alloc-only I/O layer"},
            {"name": "pyharness", "path": "pyharness", "serves_properties": ["C16", "C17", "C18"],
             "kind_free_text": "Python 3.11 + Hypothesis 6.168 (python3-vt): drives the binaries radar and 1090 built from /repo (release profile; second pass: dev profile) over a pty and TCP, VT emulator, feed server; expected values from `vcheck helper` (the real libraries)"},
        ],
        "checks": checks,
        "not_applicable": na,
        "notes": "All checks take VERIF_SEED; exit 2 means inconclusive (build failure, watchdog, vacuity guard), never a violation. known_findings.jsonl lists known and fixed findings.",
    }
    if not na: del m["not_applicable"]
    json.dump(m, open(os.path.join(V, "MANIFEST.json"), "w"), indent=1)
    print("MANIFEST.json written:", len(checks), "checks,", len(na), "not applicable")

main()
