#!/usr/bin/env python3
"""Regenerate MANIFEST.json from the table below (keeps it schema-valid)."""
import json, sys, os
V = os.path.dirname(os.path.dirname(os.path.abspath(__file__)))

# id -> (level category, technique, level text, level note, design ref)
CHECKS = {
 "C04": ("exploration", "exhaustive field grids + generated frames vs. reference bit-field decoder (differential); exhaustive 2^24 text round trip",
         "Every CA/CF x DF x type-code cell and every value of frame bits 6-19 of the short/long surveillance formats is decoded with random fills and compared with an independent Annex-10 bit extractor; the address text round trip is enumerated completely. Exhaustive over each header field, sampled over the remaining payload bits.",
         "Trusts the harness's reference extractor (refdec.rs) and Annex 10 bit positions as quoted there; payload bits outside the enumerated field are sampled, not enumerated.", "3 C04"),
 "C06": ("exploration", "exhaustive enumeration of all altitude codes x carriers vs. independent Gillham/25ft reference (differential)",
         "All 8192 AC13 codes in DF0/4/16/20 and all 4096 AC12 codes in each of the 13 type codes under DF17 and DF18 are decoded with random surroundings and compared with a reference written from Annex 10; the code space is covered completely, the surroundings are sampled.",
         "Trusts refdec::ac13_ft/ac12_ft/gillham_ft; an altitude of exactly 0 ft may be shown as none or 0.", "3 C06"),
 "C07": ("exploration", "exhaustive 2^22 / 2^11 / 2^8 field sweeps vs. reference decoder and atan2/hypot velocity model",
         "Every direction/component word of both ground-speed subtypes, every vertical-rate word in every subtype, every GNSS-difference word and every NACv/flag word is decoded and compared field by field; calculate() is compared with an independent model.",
         "Trusts refdec::velocity_calc; naming polarity of the vertical-rate source bit follows the repository's pinned tests and is not asserted.", "3 C07"),
 "C08": ("exploration", "position x code enumeration + random strings vs. Annex 10 character table (differential)",
         "Every 6-bit code at every one of the 8 positions, every ordered pair of positions with 16 representative codes, and random strings, in all four carriers.",
         "Interior spaces may be kept or dropped (statement only says padding is removed).", "3 C08"),
 "C09": ("exploration", "exhaustive enumeration of all 8192 identity codes x carriers vs. reference de-interleaver",
         "All identity codes in DF5, DF21 and type 28 under DF17/DF18 with random surroundings; all 64 subtype/emergency values.",
         "Trusts refdec::squawk_of.", "3 C09"),
 "C10": ("exploration", "walking-field / walking-one enumeration + generated frames vs. reference bit-field decoder (differential)",
         "Each field of each interpreted ME/MB layout takes every value (or edge + random values when wider than 12 bits) with all other bits random, under DF17, DF18 x CF 0..7, DF20, DF21; single-one payloads locate each bit's owner; the BDS dispatch byte is swept.",
         "Trusts the DO-260B / ICAO 9871 layouts quoted in refdec.rs; type codes 1-4, 19, 28 and altitude codes are decided by C08, C07, C09, C06.", "3 C10"),
}
NOT_YET = {}
ALL = [f"C{i:02d}" for i in range(1, 21)]

def main():
    checks = []
    for pid in ALL:
        if pid not in CHECKS: continue
        cat, tech, text, note, ref = CHECKS[pid]
        checks.append({
            "property_id": pid,
            "quick_cmd": f"./check {pid} quick",
            "thorough_cmd": f"./check {pid} thorough",
            "evidence_file": f"/verif/evidence/{pid}.json",
            "replay_cmd_template": f"./check {pid} --replay {{path}}",
            "engine": "vcheck" if pid not in ("C16", "C17", "C18") else "pyharness",
            "level_claimed": {"category": cat, "text": text, "design_ref": f"DESIGN.md section {ref}"},
            "level_note": note,
            "technique": tech,
        })
    na = [{"property_id": p, "reason": NOT_YET.get(p, "check not built yet in this revision of /verif (work in progress; see DESIGN.md)")} for p in ALL if p not in CHECKS]
    hooks_commits = [l.strip() for l in open(os.path.join(V, "hooks_commits.txt"))] if os.path.exists(os.path.join(V, "hooks_commits.txt")) else []
    m = {
        "version": 1,
        "setup_cmd": "./check --setup",
        "hooks": {
            "guard": "cargo feature `verif_hooks` of rsadsb_common",
            "enable": "the harness depends on rsadsb_common with features = [\"std\", \"serde\", \"verif_hooks\"] (harness/vcheck/Cargo.toml)",
            "baseline_off_cmd": "cd /repo && cargo test --workspace --no-fail-fast --offline",
            "source_commits": hooks_commits,
            "add_only": True,
        },
        "engines": [
            {"name": "vcheck", "path": "harness/vcheck", "serves_properties": [p for p in ALL if p in CHECKS and p not in ("C16","C17","C18")],
             "kind_free_text": "Rust binary: proptest 1.11 (TestRunner, fixed ChaCha seeds, shrinking), exhaustive enumerators, reference models; links the libraries from /repo's working tree by path"},
        ],
        "checks": checks,
        "not_applicable": na,
        "notes": "All checks take VERIF_SEED; exit 2 means inconclusive (build failure, watchdog, vacuity guard), never a violation. known_findings.jsonl lists known and fixed findings.",
    }
    if not na: del m["not_applicable"]
    json.dump(m, open(os.path.join(V, "MANIFEST.json"), "w"), indent=1)
    print("MANIFEST.json written:", len(checks), "checks,", len(na), "not applicable")

main()
