#!/usr/bin/env python3
"""Select a compact set of saved replays per property into regress/<ID>.jsonl (one case per line)."""
import json, glob, os, sys
V = "/verif"
os.makedirs(f"{V}/regress", exist_ok=True)
for pid in [f"C{i:02d}" for i in range(1, 21)]:
    files = sorted(glob.glob(f"{V}/replays/{pid}/*.json"))
    groups = {}
    for f in files:
        try:
            c = json.load(open(f))
        except Exception:
            continue
        sig = c.get("signature", "")
        parts = sig.split("/")
        key = "/".join(parts[:3]) if pid in ("C16", "C17", "C18") else "/".join(parts[:2] + [parts[2][:4] if len(parts) > 2 else ""])
        groups.setdefault(key, []).append(c)
    out = []
    for k in sorted(groups):
        for c in groups[k][:2]:
            c = {x: y for x, y in c.items() if x not in ("count_this_run", "original_hex", "scenario", "artifact")}
            out.append(c)
    # keep existing hand-added cases
    path = f"{V}/regress/{pid}.jsonl"
    old = []
    if os.path.exists(path):
        old = [json.loads(l) for l in open(path) if l.strip() and not l.startswith("#")]
    seen = set()
    allc = []
    for c in old + out:
        k = json.dumps({x: y for x, y in c.items() if x not in ("message",)}, sort_keys=True)
        if k not in seen:
            seen.add(k)
            allc.append(c)
    cap = 12 if pid in ("C16", "C17", "C18") else 120
    allc = allc[:cap]
    if allc:
        with open(path, "w") as f:
            for c in allc:
                f.write(json.dumps(c) + "\n")
    print(pid, len(files), "replays ->", len(allc), "regress cases")
