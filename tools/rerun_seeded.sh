#!/bin/bash
# tools/rerun_seeded.sh [-j N] [ID-glob...]   — sensitivity regression of the machinery itself:
# every kept seeded change (seeded/<PID>-m<i>/patch.diff) is applied in a scratch worktree of
# /repo (never in /repo), the quick tier of its property's check (or the check named in
# meta.json's first detecting entry) is run with VERIF_REPO pointing at the worktree, and the
# patch is reverted.  Prints one line per change and a summary; exit 1 if any change is missed.
# The scratch worktrees and their build output are removed at the end.
J=3
if [ "$1" = "-j" ]; then J=$2; shift 2; fi
cd "$(dirname "$0")/.." || exit 2
VD=$(pwd)
PATS=("$@"); [ ${#PATS[@]} -eq 0 ] && PATS=("C*")
LIST=()
for pat in "${PATS[@]}"; do for d in seeded/$pat; do [ -f "$d/patch.diff" ] && LIST+=("$(basename $d)"); done; done
OUT=$(mktemp -d /tmp/rerun_seeded.XXXXXX)
export CARGO_NET_OFFLINE=true
worker() {
  local k=$1; local WT=$OUT/wt$k
  git -C /repo worktree add -q --detach "$WT" HEAD || exit 2
  local n=0
  for id in "${LIST[@]}"; do
    n=$((n+1)); [ $((n % J)) -eq $((k % J)) ] || continue
    local pid=${id%%-*}
    local chk=$(python3 -c "import json,sys; m=json.load(open('seeded/$id/meta.json')); d=[c['check'] for c in m.get('checks_run',[]) if c.get('detected') and c.get('tier')=='quick']; print(d[0] if d else '$pid')")
    ( cd "$WT" && git checkout -q -- . && git apply "$VD/seeded/$id/patch.diff" ) || { echo "$id: patch does not apply" >> $OUT/res.$k; continue; }
    local t0=$(date +%s)
    VERIF_REPO=$WT CARGO_BUILD_JOBS=$((16 / J)) ./check $chk quick > $OUT/$id.log 2>&1; local rc=$?
    local sig=$(grep -m1 -A1 '^VIOLATION' $OUT/$id.log | tr '\n' ' ' | cut -c1-160)
    echo "$id check=$chk rc=$rc t=$(( $(date +%s) - t0 ))s :: $sig" | tee -a $OUT/res.$k
    ( cd "$WT" && git checkout -q -- . )
  done
  git -C /repo worktree remove --force "$WT"
}
for k in $(seq 0 $((J-1))); do worker $k & done
wait
cat $OUT/res.* | sort > $OUT/all
TOTAL=$(wc -l < $OUT/all); HIT=$(grep -c ' rc=1 ' $OUT/all)
echo "seeded changes re-run: $TOTAL, detected (rc=1): $HIT"
grep -v ' rc=1 ' $OUT/all
# build output of the scratch worktrees
for k in $(seq 0 $((J-1))); do h=$(echo "$OUT/wt$k" | md5sum | cut -c1-8); rm -rf work/target-$h work/target-$h-* work/alt-$h; done
rm -rf $OUT
[ "$TOTAL" = "$HIT" ]
