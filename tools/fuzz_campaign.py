#!/usr/bin/env python3
"""Run one libFuzzer campaign for a property (thorough tier) and fold the result into the evidence file.
usage: fuzz_campaign.py <PID> <target> <runs_per_job> <jobs>
exit 0 = no failure, 1 = VIOLATION printed, 2 = inconclusive (build / infrastructure)"""
import os, sys, json, subprocess, glob, re, shutil, time, hashlib

pid, target, runs, jobs = sys.argv[1], sys.argv[2], int(sys.argv[3]), int(sys.argv[4])
V = os.environ.get("VERIF_DIR", "/verif")
W = os.path.join(V, "work")
tgt = os.environ.get("CARGO_TARGET_DIR_FUZZ", os.path.join(W, "target-fuzz"))
seed = int(os.environ.get("VERIF_SEED", "1")) or 1
corpus = os.path.join(W, "corpus", f"{target}-{pid}")
art = os.path.join(W, "fuzz-artifacts", f"{target}-{pid}") + "/"
shutil.rmtree(corpus, ignore_errors=True)   # fresh corpus: the campaign is a function of (tree, seed)
shutil.rmtree(art, ignore_errors=True)
os.makedirs(corpus, exist_ok=True)
os.makedirs(art, exist_ok=True)
# seed corpus: the frames of the repository's own tests (+ empty input)
src = os.path.join(W, "repo/libadsb_deku/tests/test.rs")
n = 0
if os.path.exists(src):
    for hx in sorted(set(re.findall(r'hex!\("([0-9a-fA-F]+)"\)', open(src).read()))):
        b = bytes.fromhex(hx)
        if target == "fz_total":
            b = bytes([len(b)]) + b
        elif target == "fz_reader":
            b = bytes([3, 1, 0, 2]) + b
        open(os.path.join(corpus, f"seed{n:03d}"), "wb").write(b)
        n += 1
open(os.path.join(corpus, "empty"), "wb").write(b"")
env = dict(os.environ)
env["CARGO_TARGET_DIR"] = tgt
env["VERIF_FUZZ_PID"] = pid
logdir = os.path.join(W, "fuzz-logs", f"{target}-{pid}")
shutil.rmtree(logdir, ignore_errors=True)
os.makedirs(logdir, exist_ok=True)
HARN = os.environ.get("VERIF_HARNESS") or os.path.join(V, "harness")
fd = os.path.join(HARN, "fuzz")
if not os.path.exists(os.path.join(fd, "Cargo.lock")):
    shutil.copy(os.path.join(HARN, "Cargo.lock"), os.path.join(fd, "Cargo.lock"))
t0 = time.time()
b = subprocess.run(["cargo", "+nightly", "fuzz", "build", "--fuzz-dir", ".", target], cwd=fd, env=env, stdout=subprocess.PIPE, stderr=subprocess.STDOUT)
if b.returncode != 0:
    print("INCONCLUSIVE: fuzz target build failed:\n" + b.stdout.decode(errors="replace")[-1500:])
    sys.exit(2)
# locate the binary and run the jobs ourselves (one process per job, own seed, shared corpus)
bins = glob.glob(os.path.join(tgt, "*", "release", target))
if not bins:
    print("INCONCLUSIVE: fuzz binary not found")
    sys.exit(2)
procs = []
for j in range(jobs):
    lg = open(os.path.join(logdir, f"job{j}.log"), "wb")
    procs.append((subprocess.Popen([bins[0], corpus, f"-runs={runs}", "-max_len=100", "-len_control=0", f"-seed={seed * 1000 + j + 1}", f"-artifact_prefix={art}", "-print_final_stats=1", "-timeout=20", "-rss_limit_mb=4096"], cwd=logdir, env=env, stdout=lg, stderr=subprocess.STDOUT), lg))
for p, lg in procs:
    p.wait()
    lg.close()
execs = 0
cov = 0
fails = {}
sig_artifact = {}
other_crash = []
for j in range(jobs):
    t = open(os.path.join(logdir, f"job{j}.log"), errors="replace").read()
    m = re.search(r"stat::number_of_executed_units:\s*(\d+)", t)
    if m:
        execs += int(m.group(1))
    for c in re.findall(r"cov: (\d+)", t):
        cov = max(cov, int(c))
    written = re.findall(r"Test unit written to (\S+)", t)
    for sig, msg in re.findall(r"VERIF-FAIL (\S+) :: (.*)", t):
        fails.setdefault(sig, msg)
        if written:
            sig_artifact.setdefault(sig, written[-1])
    if ("ERROR: libFuzzer" in t or "ERROR: AddressSanitizer" in t or "deadly signal" in t) and "VERIF-FAIL" not in t:
        other_crash.append(t[-1200:])
arts = sorted(glob.glob(art + "*"))
rc = 0
replays = []
for sig, msg in fails.items():
    if not sig.startswith(pid):
        continue  # another property's oracle (only possible when VERIF_FUZZ_PID is not honoured)
    # pick an artifact that reproduces it: the message carries no bytes for every oracle, so keep all
    d = os.path.join(V, "replays", pid)
    os.makedirs(d, exist_ok=True)
    a = sig_artifact.get(sig) or (arts[0] if arts else None)
    data = open(a, "rb").read() if a else b""
    if target == "fz_total":
        frames = []
        rest = data
        for _ in range(3):
            if not rest:
                break
            k = min(rest[0] % 33, len(rest) - 1)
            frames.append(rest[1:1 + k].hex())
            rest = rest[1 + k:]
        body = {"kind": "frame", "check": "total", "hex": frames[-1] if frames else "", "history": frames[:-1]}
    elif target == "fz_reader":
        k = min(data[0] % 48, len(data) - 1) if data else 0
        body = {"kind": "schedule", "hex": data[1 + k:].hex(), "script": ["I" if x == 0 else (x % 4) + 1 for x in data[1:1 + k]], "default_max": 64}
    else:
        body = {"kind": "frame", "hex": data.hex()}
    body.update({"property": pid, "signature": sig, "message": msg, "found_by": f"libFuzzer target {target}", "artifact": a})
    path = os.path.join(d, "fuzz-" + hashlib.sha1((sig + data.hex()).encode()).hexdigest()[:10] + ".json")
    json.dump(body, open(path, "w"), indent=1)
    print(f"VIOLATION property={pid} replay={path}")
    print(f"  signature={sig} :: {msg[:600]} [libFuzzer {target}]")
    replays.append(path)
    rc = 1
if other_crash and rc == 0:
    # a crash outside the oracle (sanitizer report, timeout, OOM)
    if any("AddressSanitizer" in c for c in other_crash):
        path = os.path.join(V, "replays", pid, "fuzz-asan.txt")
        os.makedirs(os.path.dirname(path), exist_ok=True)
        open(path, "w").write(other_crash[0])
        print(f"VIOLATION property={pid} replay={path}")
        print("  signature=" + pid + "/sanitizer :: AddressSanitizer report in " + target)
        rc = 1
    else:
        print("INCONCLUSIVE: libFuzzer stopped without an oracle verdict (timeout / OOM?):\n" + other_crash[0][-600:])
        rc = 2
# fold into the evidence file
ev_path = os.path.join(V, "evidence", f"{pid}.json")
try:
    ev = json.load(open(ev_path))
    ev["coverage"].setdefault("notes", {})["libfuzzer"] = {"target": target, "jobs": jobs, "runs_per_job": runs, "executions": execs, "edge_coverage": cov, "seed_corpus_files": n + 1, "final_corpus_files": len(os.listdir(corpus)), "failures": sorted(fails), "wall_s": round(time.time() - t0, 1)}
    ev["coverage"]["evaluations"] = ev["coverage"].get("evaluations", 0) + execs
    ev["wall_s"] = ev.get("wall_s", 0) + (time.time() - t0)
    if rc == 1:
        ev["violations"] = ev.get("violations", 0) + len(replays)
        ev["coverage"].setdefault("violation_replays", []).extend(replays)
    json.dump(ev, open(ev_path, "w"), indent=1)
except Exception as e:
    print("note: evidence not updated:", e)
print(f"{pid} libFuzzer {target}: executions={execs} edge_coverage={cov} failures={len(fails)} wall={time.time() - t0:.1f}s")
sys.exit(rc)
