#!/usr/bin/env python3
"""Copy confirmed sub-agent mutants from /tmp/mw/<PID>/mutants into /verif/seeded/<PID>-m<i>/."""
import os, sys, json, shutil, glob, re
V = "/verif"
MW = os.environ.get("MW", "/tmp/mw2")
OFF = int(os.environ.get("OFF", "2"))
for pid in sys.argv[1:]:
    for i in (1, 2):
        m = f"{MW}/{pid}/mutants"
        cf = f"{m}/m{i}.confirm.json"
        if not os.path.exists(cf):
            print(pid, i, "not confirmed yet"); continue
        conf = json.load(open(cf))
        if not (conf["applies"] and conf["suite_pass"] and conf["demo_fails_with"] and conf["demo_passes_without"]):
            print(pid, i, "NOT CONFIRMED", conf); continue
        d = f"{V}/seeded/{pid}-m{i + OFF}"
        os.makedirs(d, exist_ok=True)
        shutil.copy(f"{m}/m{i}.diff", f"{d}/patch.diff")
        if os.path.isdir(f"{d}/demo"):
            shutil.rmtree(f"{d}/demo")
        shutil.copytree(f"{m}/m{i}_demo", f"{d}/demo", ignore=shutil.ignore_patterns("target", "*.log", "__pycache__"))
        desc = open(f"{m}/m{i}.md").read() if os.path.exists(f"{m}/m{i}.md") else ""
        shutil.copy(f"{m}/m{i}.md", f"{d}/description.md") if desc else None
        runs = []
        for lg in sorted(glob.glob(f"{m}/m{i}.check_*.log")):
            t = open(lg, errors="replace").read()
            chk, tier = re.match(r".*check_(C\d\d)\.(\w+)\.log", lg).groups()
            v = re.findall(r"^VIOLATION property=(\S+) .*\n\s+signature=(\S+)", t, flags=re.M)
            runs.append({"check": chk, "tier": tier, "detected": bool(v), "signatures": sorted({x[1] for x in v})[:6]})
        meta = {
            "property": pid,
            "origin": "independent sub-agent, given only the property text and a scratch worktree",
            "needs_to_manifest": (re.search(r"(?is)(needs|manifest|trigger)[^\n]*\n(.{0,600})", desc).group(0)[:700] if re.search(r"(?i)needs|manifest|trigger", desc) else desc[:700]),
            "confirmed_by_me": {"patch_applies_to_clean_tree": True, "workspace_test_suite_passes_with_patch": True, "demo_fails_with_patch": True, "demo_passes_without_patch": True,
                                "how": "tools/confirm_mutant.sh in the sub-agent's scratch worktree (cargo test --workspace --no-fail-fast --offline; demo/run.sh with and without the patch)"},
            "checks_run": runs,
            "how_run": "tools/run_mutant.sh: patch applied in the scratch worktree, VERIF_REPO=<worktree> ./check <ID> <tier>, patch reverted",
        }
        json.dump(meta, open(f"{d}/meta.json", "w"), indent=1)
        print(pid, i, "collected", [(r["check"], r["tier"], r["detected"]) for r in runs])
