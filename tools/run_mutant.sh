#!/bin/bash
# tools/run_mutant.sh <PID> <i> [tier] [CHECKID]  — run a check against a seeded change, in the
# sub-agent's scratch worktree (VERIF_REPO), never in /repo.  Prints one summary line.
PID=$1; I=$2; TIER=${3:-quick}; CHK=${4:-$PID}; D=${MW:-/tmp/mw2}/$PID; M=$D/mutants
cd "$D" || exit 2
git checkout -q -- . 2>/dev/null
git apply "$M/m$I.diff" || { echo "$PID m$I: patch does not apply"; exit 2; }
cd /verif
START=$(date +%s)
VERIF_REPO=$D ./check $CHK $TIER > "$M/m$I.check_$CHK.$TIER.log" 2>&1; RC=$?
END=$(date +%s)
( cd "$D" && git checkout -q -- . )
V=$(grep -m1 -A1 "^VIOLATION" "$M/m$I.check_$CHK.$TIER.log" | tr '\n' ' ' | cut -c1-260)
echo "$PID m$I check=$CHK tier=$TIER rc=$RC t=$((END-START))s :: $V"
