#!/bin/bash
# tools/process_mutants.sh <PID>...  — confirm and run the quick check against mutants m1, m2 of each PID
for P in "$@"; do
  for I in 1 2; do
    [ -f ${MW:-/tmp/mw2}/$P/mutants/m$I.diff ] || { echo "$P m$I: missing"; continue; }
    /verif/tools/confirm_mutant.sh $P $I
    /verif/tools/run_mutant.sh $P $I quick
  done
done
