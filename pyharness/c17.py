#!/usr/bin/env python3
"""C17: no operator action or terminal size crashes radar; quit restores the terminal; bad CLI values
are usage errors."""
import sys, os, json, time, argparse, subprocess

sys.path.insert(0, os.path.dirname(os.path.abspath(__file__)))
import frames as F
from appdriver import RadarSession, Inconclusive, terminal_restored, RADAR
from ptyproc import key, mouse_sgr
import pbt

PID = "C17"
RX = (52.0, 4.0)
KEYSET = ["F1", "F2", "F3", "F4", "F5", "Tab", "Up", "Down", "Left", "Right", "Enter", "+", "-", "l", "i", "h", "t", "n", "x", "Z", "1", " ", "Esc", "Backspace",
          "F6", "F7", "F8", "F9", "F10", "F11", "F12", "Home", "End", "PageUp", "PageDown", "Insert", "Delete", "BackTab", "CtrlA", "CtrlL", "AltX", "ShiftUp", "CtrlRight", "Nul", "Utf8", "Wide"]
SIZES_R = [1, 2, 3, 4, 5, 7, 10, 24, 50, 120]
SIZES_C = [1, 2, 5, 10, 20, 49, 50, 80, 160, 250]
FLAGS = ["--touchscreen", "--disable-lat-long", "--disable-callsign", "--disable-icao", "--disable-heading", "--disable-track", "--limit-parsing", "--retry-tcp", "--max-range=60", "--max-range=0",
         "--filter-time=0", "--filter-time=18446744073709551615", "--gpsd"]  # appended: indices of saved cases stay valid
AIRCRAFT = [0x4840D6, 0xABC001, 0x3C6586, 0x000001, 0xFFFFFE]
# receiver positions given on the command line: None = the default site; the others are values the
# f64 parser accepts or rejects - radar may refuse them (usage error) or run, but never crash
RXS = [None, None, None, ("nan", "4.0"), ("52.0", "inf"), ("-inf", "nan"), ("90", "180"), ("-90", "-180"), ("1e308", "-1e308"), ("0", "0"), ("52.0", "184.0")]
NAV = [6, 7, 8, 9, 10, 11, 12]  # Up Down Left Right Enter + -


def traffic(n_ac, with_pos, step):
    """frames for n_ac aircraft; positions near the receiver (with_pos == 2: all at the same spot)"""
    out = []
    for i in range(n_ac):
        a = AIRCRAFT[i % len(AIRCRAFT)]
        out.append(F.ident(a, f"AC{i}{step % 10}"))
        if with_pos:
            lat, lon = F.destination(RX[0], RX[1], 70.0 * i + 3 * step, 20.0 + 15 * i)
            if with_pos == 2:
                lat, lon = F.destination(RX[0], RX[1], 45.0, 30.0)
            if with_pos == 3:
                # jumping aircraft: alternately near and 170 km further out (the tracker clears the
                # record on the jump; also beyond a small --max-range)
                lat, lon = F.destination(RX[0], RX[1], 70.0 * i, 20.0 + 170.0 * (step % 2))
            out.append(F.position(a, lat, lon, 0))
            out.append(F.position(a, lat, lon, 1))
            out.append(F.velocity(a, 120 + i, 80 - 30 * i, 64 * i))
    return out


def run_case(case):
    fails = []
    opts = [FLAGS[i % len(FLAGS)] for i in case["flags"]]
    opts = list({o.split("=")[0]: o for o in reversed(opts)}.values())  # one value per option
    if case.get("locations"):
        opts += ["--locations"] + case["locations"]
    if case.get("scale") is not None:
        opts += [f"--scale={case['scale']}"]
    rows, cols = SIZES_R[case["rows"] % len(SIZES_R)], SIZES_C[case["cols"] % len(SIZES_C)]
    connect = not case.get("no_server", False)
    rx = RXS[case.get("rx", 0) % len(RXS)] or RX
    gpsd = None
    if case.get("gpsd_server") and connect:
        # a gpsd daemon that completes the handshake and then says nothing more ("silent") or keeps
        # reporting fixes ("talking"); quitting must not wait for it
        from feed import FakeGpsd
        gpsd = FakeGpsd(proto_major=2 if case.get("gpsd_server") == "badproto" else 3)
        gpsd.start()
        opts = [o for o in opts if o != "--gpsd"] + ["--gpsd", "--gpsd-ip", gpsd.ip]
    ft = None if any(o.startswith("--filter-time") for o in opts) else (1 if case.get("expiry") else None)
    s = RadarSession("c17", rows=rows, cols=cols, lat=rx[0], lon=rx[1], opts=opts, connect=connect, filter_time=ft)
    try:
        time.sleep(0.15)
        step_no = 0
        flooding = False
        if (rx is not RX or case.get("scale") is not None) and not s.alive() and s.p.proc.returncode == 2 and "error:" in (s.stderr() + bytes(s.p.out).decode(errors="replace")):
            return fails  # the value was refused with a usage error: allowed

        def check(after):
            s.p.pump(0.12)
            if not s.alive() or s.panicked():
                err = s.stderr()[-400:]
                where = ""
                for ln in err.splitlines():
                    if "panicked at" in ln:
                        where = ln.strip()
                sig_loc = where.split("panicked at ")[-1].split(":")[0:2] if where else ["?"]
                loc = ":".join(sig_loc).replace("apps/src/radar/", "")
                fails.append((f"C17/crash/{loc}", f"radar terminated (status {s.p.proc.returncode}) after step {after}: {where or err[-200:]}"))
                return False
            return True

        if connect and not check("start"):
            return fails
        if gpsd is not None and gpsd.ready.wait(8.0) and case.get("gpsd_server") != "badproto":
            try:
                gpsd.report(RX[0] + 0.01, RX[1] + 0.01)
            except OSError:
                pass
        if connect:
            for st in case["steps"]:
                step_no += 1
                k = st[0]
                if k == "key":
                    s.p.write(key(KEYSET[st[1] % len(KEYSET)]))
                elif k == "paste":
                    s.p.write(b"".join(key(KEYSET[x % len(KEYSET)]) for x in st[1]))
                elif k == "mouse":
                    kinds = ["down", "up", "drag", "scrollup", "scrolldown", "rightdown", "middledown", "move"]
                    s.p.write(mouse_sgr(kinds[st[1] % len(kinds)], st[2], st[3]))
                elif k == "click_tab":
                    col = [4, 10, 25, 38, 45][st[1] % 5]
                    s.p.write(mouse_sgr("down", col, 2) + mouse_sgr("up", col, 2))
                elif k == "resize":
                    s.resize(SIZES_R[st[1] % len(SIZES_R)], SIZES_C[st[2] % len(SIZES_C)])
                elif k == "feed":
                    if s.srv.conn is not None:
                        for f in traffic(st[1] % 6, st[2] % 4, step_no):
                            s.send(F.line(f))
                    time.sleep(0.1)
                elif k == "noise":
                    if s.srv.conn is not None:
                        s.send(NOISE[st[1] % len(NOISE)])
                    time.sleep(0.08)
                elif k == "flood":
                    # from here on the feed never pauses: lines that are not frames (another
                    # protocol on the port, all-zero frames, noise), or frames, one every 4 ms
                    if s.srv.conn is not None and not flooding:
                        flooding = True
                        kinds = [
                            [b"MSG,3,1,1,4840D6,1,2026/10/03,10:00:00.000,2026/10/03,10:00:00.000,,37000,,,52.1,4.2,,,0,0,0,0\r\n"],
                            [b"*00000000000000;\n"],
                            [b"*zz11zz11zz11zz;\n", b"\n", b"*;\n", b"@0123456789ab8d4840d6202cc371c32ce0576098;\n"],
                            [F.line(f) for f in traffic(3, 1, 1)],
                        ]
                        s.srv.flood(kinds[st[1] % len(kinds)])
                    time.sleep(0.3)
                elif k == "bounce":
                    # the server drops the connection and takes radar back at once; with
                    # --retry-tcp the session goes on over the new connection, which may stay quiet
                    if "--retry-tcp" in opts and s.srv.conn is not None and not flooding:
                        s.srv.drop(reset=bool(st[1] % 2))
                        if not s.srv.accept(12.0):
                            if check(f"{step_no} (reconnect)"):
                                raise Inconclusive("radar --retry-tcp did not reconnect within 12 s")
                            return fails
                        time.sleep(0.3)
                        if st[1] >= 2:
                            for f in traffic(2, 1, step_no):
                                s.send(F.line(f))
                            time.sleep(0.1)
                elif k == "crowd":
                    # many aircraft at once (more than any table or map cell holds), all positioned
                    if s.srv.conn is not None:
                        n = [40, 150, 400][st[1] % 3]
                        buf = b""
                        for i in range(n):
                            a = 0x500000 + i * 0x101
                            lat, lon = F.destination(RX[0], RX[1], (i * 7.3) % 360.0, 3.0 + (i * 1.9) % 240.0)
                            buf += F.line(F.ident(a, f"C{i:04d}")) + F.line(F.position(a, lat, lon, 0, alt_ft=1000 + 25 * i)) + F.line(F.position(a, lat, lon, 1, alt_ft=1000 + 25 * i))
                        s.send(buf)
                    time.sleep(0.4)
                elif k == "feed_tab":
                    if s.srv.conn is not None:
                        for f in traffic(st[1] % 6, st[2] % 4, step_no):
                            s.send(F.line(f))
                    time.sleep(0.25)
                    s.p.write(key(["F1", "F2", "F3", "F4", "F5"][st[3] % 5]))
                    time.sleep(0.2)
                elif k == "server_drop":
                    # the feed goes away for good; only meaningful with --retry-tcp (radar then
                    # shows its waiting screen again), without it the exit is C16's business
                    if "--retry-tcp" in opts and s.srv.conn is not None:
                        s.srv.drop(reset=bool(st[1]))
                        try:
                            s.srv.sock.close()
                        except OSError:
                            pass
                        time.sleep(0.4)
                elif k == "wait_expiry":
                    time.sleep(1.25)
                if gpsd is not None and case.get("gpsd_server") == "talking" and gpsd.ready.is_set():
                    try:
                        gpsd.report(RX[0] + 0.001 * step_no, RX[1])
                    except OSError:
                        pass
                if not check(f"{step_no} {st}"):
                    return fails
        else:
            time.sleep(0.3)
            # keys the waiting screen does not know, singly and in long bursts (every one is a pass
            # through the connection loop), and a resize
            for burst in case.get("wait_keys", []):
                s.p.write(b"".join(key(KEYSET[x % len(KEYSET)]) for x in burst))
                s.p.pump(0.15)
            if not s.alive():
                fails.append(("C17/crash/start_no_server", f"radar terminated while waiting for a connection: {s.stderr()[-300:]}"))
                return fails
        q = s.quit(["q", "ctrl-c", "q+enter", "ctrl-c+down"][case["quit"] % 4], 6.0)
        ctx = "while waiting for a connection" if not connect else "after the session"
        tag = "no_server" if not connect else "session"
        if q["rc"] is None:
            fails.append((f"C17/quit/no_exit/{tag}", f"quit requested {ctx} but radar kept running"))
        else:
            if q["rc"] != 0:
                err = s.stderr()
                loc = ""
                for ln in err.splitlines():
                    if "panicked at" in ln:
                        loc = ":".join(ln.split("panicked at ")[-1].split(":")[0:2]).replace("apps/src/radar/", "")
                if loc:
                    fails.append((f"C17/crash/{loc}", f"radar had crashed before quit was requested ({ctx}): exit status {q['rc']}; {err[-300:]}"))
                else:
                    fails.append((f"C17/quit/status/{tag}", f"quit {ctx}: exit status {q['rc']}; {err[-300:]}"))
            if not q["termios_restored"]:
                fails.append((f"C17/quit/termios/{tag}", f"quit {ctx}: terminal left in raw mode (termios differ from the snapshot taken before start)"))
            for pr in terminal_restored(q["all"]):
                fails.append((f"C17/quit/{'mouse' if 'mouse' in pr else 'cursor'}/{tag}", f"quit {ctx}: {pr}"))
    finally:
        s.close()
        if gpsd is not None:
            gpsd.close()
    return fails


# traffic that is not a frame (C16 decides what is processed; here it only has to be survived)
NOISE = [
    b"*8D40621D58C382D690C8AC2863A7BEEF;\n",  # framed, 16 bytes
    b"*8D40621D58C382D690C8AC2863A7BE;\n",  # framed, 15 bytes
    b"*" + b"ab" * 3000 + b";\n",
    b"*8D40621D58C382D690C8AC2863A7*8D40621D58C386435CC412692AD6;\n",  # two frames glued together
    b"*8d4840d6202cc371c32ce05760;\n",
    b"*8d;\n", b"*;\n", b"\n", b"*zz11zz11zz11zz;\n", b"*\xff\xfe\xfd;\n", "日本\n".encode(),
    b"@0123456789ab8d4840d6202cc371c32ce0576098;\n", b"*98aabbcc;\n", b"*00000000000000;\n", b"*0000000000000000000000000000;\n",
    b"*a0001910204d7075d35820c25c;\n", b"*8d4840d6202cc371c32ce0576098",  # (the last one has no end: the next line completes it)
]

BAD_VALUES = {
    "--lat": ["abc", "", "12,5", "--", "1e", "north", "52.\udce9"],
    "--long": ["abc", "", "4.0.0"],
    "--port": ["abc", "-1", "65536", "70000", "", "1.5"],
    "--host": ["localhost", "256.1.1.1", "1.2.3", "", "::1", "127.0.0.\udcb1"],
    "--scale": ["abc", "", "1,2"],
    "--filter-time": ["abc", "-1", "1.5", "", "99999999999999999999999"],
    "--max-range": ["abc", "", "km"],
    # a lone surrogate stands for one raw byte of argv (os.fsencode): values that are not UTF-8
    "--log-folder": ["logs_\udce9", "\udcff"],
    "--gpsd-ip": ["gps\udc80host"],
    "--locations": ["abc", "(a,1.0)", "(a)", "()", "", "(a,b,c)", "(a,1.0,x)", "a,1.0", ",", "((", "(a,,)", "(", ")", "(home,52.1,4.3°", "°", "(é", "(a,1.0,2.0,3.0)", "(,,", "(a,1e999x,2)", "(a, ,)", "(Z\udcfcrich,47.4,8.5)", "(a,1.0,2.\udc80)"],
}


def run_cli_case(case):
    """invalid value -> usage error (exit 2, message on stderr, no panic)"""
    fails = []
    opt = case["opt"]
    val = BAD_VALUES[opt][case["val"] % len(BAD_VALUES[opt])]
    argv = [RADAR, "--lat=52.0", "--long=4.0", "--log-folder", os.path.join(pbt.VERIF, "work", "logs", "cli")]
    argv = [a for a in argv if not a.startswith(opt + "=")]
    if opt == "--log-folder":
        argv = argv[:3]
    extra = [opt, val] if opt == "--locations" else [f"{opt}={val}"]
    if case.get("extra_location") and opt == "--locations":
        extra = [opt, "(ok,1.0,2.0)", val]
    try:
        r = subprocess.run(argv + extra, stdin=subprocess.DEVNULL, stdout=subprocess.PIPE, stderr=subprocess.PIPE, timeout=8)
    except subprocess.TimeoutExpired:
        raise Inconclusive("radar with an invalid option value did not exit within 8 s")
    err = r.stderr.decode(errors="replace")
    if "panicked" in err or r.returncode == 101:
        loc = ""
        for ln in err.splitlines():
            if "panicked at" in ln:
                loc = ln.split("panicked at ")[-1].split(":")[0].replace("apps/src/radar/", "")
        fails.append((f"C17/cli/panic/{opt}/{loc}", f"radar {' '.join(extra)!r} panicked instead of reporting a usage error: {err[:300]}"))
    elif r.returncode != 2 or "error:" not in err:
        fails.append((f"C17/cli/not_usage_error/{opt}", f"radar {' '.join(extra)!r}: exit status {r.returncode}, stderr {err[:200]!r} (expected a usage error, status 2)"))
    return fails


def classify(case):
    if case.get("cli"):
        return ["cli invalid value"], True
    cls = []
    steps = case["steps"]
    kinds = [s[0] for s in steps]
    small = SIZES_R[case["rows"] % len(SIZES_R)] < 5 or SIZES_C[case["cols"] % len(SIZES_C)] < 5 or any(s[0] == "resize" and (SIZES_R[s[1] % len(SIZES_R)] < 5 or SIZES_C[s[2] % len(SIZES_C)] < 5) for s in steps)
    fed = any(s[0] in ("feed", "feed_tab") and s[1] % 6 > 0 for s in steps)
    airplanes_tab_empty = False
    have = False
    for s in steps:
        if s[0] == "feed" and s[1] % 6 > 0:
            have = True
        if (s[0] == "key" and KEYSET[s[1] % len(KEYSET)] in ("F3", "F4")) and not have:
            airplanes_tab_empty = True
    if small:
        cls.append("size < 5")
    if airplanes_tab_empty:
        cls.append("Airplanes/Stats tab with 0 aircraft")
    if "wait_expiry" in kinds and fed and case.get("expiry"):
        cls.append("aircraft expire")
    if "paste" in kinds:
        cls.append("burst of keys")
    if "mouse" in kinds or "click_tab" in kinds:
        cls.append("mouse")
    if "noise" in kinds:
        cls.append("traffic that is not a frame")
    if "flood" in kinds:
        cls.append("feed that never pauses")
    if "bounce" in kinds and "--retry-tcp" in [FLAGS[i % len(FLAGS)] for i in case["flags"]]:
        cls.append("reconnected feed")
    if case.get("no_server"):
        cls.append("quit while waiting for connection")
    if "server_drop" in kinds and "--retry-tcp" in [FLAGS[i % len(FLAGS)] for i in case["flags"]]:
        cls.append("feed lost with --retry-tcp (reconnect screen)")
    if "--touchscreen" in [FLAGS[i % len(FLAGS)] for i in case["flags"]]:
        cls.append("touchscreen")
    return cls, (small or airplanes_tab_empty or bool(case.get("no_server")) or ("wait_expiry" in kinds and fed))


def burst_cases():
    """finite sweeps played on every run: every pair of selection / view keys written in one burst on
    every tab, with no aircraft, with aircraft, and right after all aircraft expired while another
    tab was shown; and two positioned aircraft under every listed receiver position"""
    base = {"flags": [], "rows": 7, "cols": 7, "expiry": False, "quit": 0, "no_server": False, "locations": None, "scale": None, "rx": 0}
    pairs = [["paste", [a, b]] for a in NAV for b in NAV]
    out = []
    for tab in range(5):
        out.append(dict(base, steps=[["key", tab]] + pairs + [["paste", [tab, k]] for k in NAV]))
    out.append(dict(base, steps=[["feed", 3, 1], ["key", 2]] + pairs))
    # every tab on the two tallest terminals (50 and 120 rows) and the two widest, with and without aircraft
    for r, c in ((8, 7), (9, 7), (7, 8), (9, 9)):
        out.append(dict(base, rows=r, cols=c, steps=[["key", t] for t in range(5)] + [["feed", 3, 1]] + [["key", t] for t in range(5)] + [["click_tab", t] for t in range(5)]))
    # more aircraft than rows, the table scrolled down, then every aircraft expires at once (also
    # with three aircraft on a five-row terminal); and 8-20 net zoom steps in either direction on
    # the map and the coverage tab with aircraft that have a track
    for (rows, n_down, crowd) in ((7, 60, True), (4, 6, False), (7, 500, True)):
        feed = [["crowd", 0]] if crowd else [["feed", 3, 1], ["feed", 3, 1]]
        out.append(dict(base, rows=rows, expiry=True, steps=feed + [["key", 2], ["paste", [7] * min(n_down, 120)]] + ([["paste", [7] * 120]] * (n_down // 120)) + [["wait_expiry"], ["wait_expiry"], ["wait_expiry"], ["key", 7], ["key", 6], ["key", 0], ["key", 2]] + feed + [["key", 7]]))
    for tab in (0, 1):
        for z in (11, 12):
            out.append(dict(base, steps=[["feed", 3, 1], ["feed", 3, 1], ["feed", 3, 1], ["key", tab]] + [["key", z]] * 9 + [["paste", [z] * 12], ["key", 1 - tab], ["key", tab], ["feed", 3, 1], ["key", 10]] + [["mouse", 3 if z == 11 else 4, 30, 15]] * 10 + [["key", 1 - tab]]))
    # a feed that never pauses (each kind), then keys, a resize and each way of quitting; and a
    # reconnected feed (--retry-tcp) that stays quiet or goes on, then the same
    for kind in range(4):
        for q in range(4):
            out.append(dict(base, quit=q, steps=[["feed", 2, 1], ["flood", kind], ["key", 2], ["key", 7], ["resize", 3, 4], ["key", 0], ["mouse", 3, 30, 15]]))
    for b in range(4):
        for q in range(4):
            out.append(dict(base, flags=[7], quit=q, steps=[["feed", 2, 1], ["bounce", b], ["key", 2], ["key", 7], ["resize", 3, 4], ["key", 0], ["bounce", b], ["key", 1]]))
    # every listed kind of line that is not a frame, on every tab, between frames
    for tab in range(5):
        out.append(dict(base, steps=[["feed", 2, 1], ["key", tab]] + [st for k in range(len(NOISE)) for st in (["noise", k], ["feed", 2, 1])] + [["key", 2]]))
    steps = []
    for k in NAV:
        steps += [["feed", 2, 1], ["key", 2], ["key", 7], ["key", 0], ["wait_expiry"], ["paste", [2, k]]]
    out.append(dict(base, expiry=True, steps=steps))
    # every listed --scale value (negative, zero, NaN, tiny, huge) with every way of zooming, on the
    # map and the coverage tab, with and without aircraft
    for sc in [-1.0, -0.12, 0.0, "nan", "inf", 1e-9, 1e9]:
        zoom = [["key", 11], ["key", 12], ["mouse", 3, 30, 15], ["mouse", 4, 30, 15], ["paste", [11, 11, 12]], ["key", 10]]
        out.append(dict(base, scale=sc, steps=zoom + [["key", 1]] + zoom + [["feed", 3, 1], ["key", 0]] + zoom + [["key", 1]] + zoom + [["key", 2], ["mouse", 3, 30, 15], ["key", 3], ["mouse", 4, 30, 15]]))
        out.append(dict(base, scale=sc, flags=[0], steps=[["mouse", 0, 2, 4], ["mouse", 1, 2, 4], ["mouse", 0, 2, 9], ["mouse", 1, 2, 9], ["mouse", 0, 2, 14], ["mouse", 0, 2, 19], ["feed", 2, 1], ["mouse", 0, 2, 4], ["mouse", 0, 2, 9]]))
    # positioned aircraft expire while each tab is shown, then every tab is visited
    for tab in range(5):
        out.append(dict(base, expiry=True, steps=[["feed", 3, 1], ["feed", 3, 1], ["key", tab], ["wait_expiry"], ["wait_expiry"]] + [["key", t] for t in (3, 2, 0, 1, 4, 3)] + [["feed", 2, 1], ["key", 3], ["wait_expiry"], ["wait_expiry"], ["key", 2], ["key", 3]]))
    for i in range(3, len(RXS)):
        out.append(dict(base, rx=i, steps=[["feed", 3, 1], ["feed_tab", 3, 1, 3], ["feed_tab", 2, 1, 0], ["key", 2], ["key", 7], ["key", 10]]))
    # quit (q and ctrl-c) while a gpsd daemon is connected and silent / talking; 150 unknown keys in
    # one burst (and a resize) on the waiting screen with nobody listening
    for g in ("silent", "talking", "badproto"):
        for q in (0, 1, 2, 3):
            out.append(dict(base, gpsd_server=g, quit=q, steps=[["feed", 2, 1], ["key", 0], ["key", 2]]))
    out.append(dict(base, no_server=True, wait_keys=[[18] * 150, [5, 30, 44], [21] * 150, [13] * 150], steps=[]))
    # a crowd: 400 positioned aircraft, every tab, selection keys far down the table, zoom, a small
    # terminal, and all of them expiring at once
    walk = [["key", 2]] + [["paste", [7] * 6]] * 8 + [["key", 10], ["key", 0], ["key", 11], ["key", 12], ["key", 1], ["key", 3], ["key", 4], ["resize", 3, 3], ["key", 2], ["key", 7], ["resize", 7, 7]]
    out.append(dict(base, steps=[["crowd", 2]] + walk + [["crowd", 2]] + walk))
    out.append(dict(base, expiry=True, flags=[0], steps=[["crowd", 1], ["key", 2], ["paste", [7] * 6], ["wait_expiry"], ["wait_expiry"], ["key", 7], ["key", 10], ["key", 3], ["key", 0], ["crowd", 0], ["key", 2], ["key", 6]]))
    return out


def run_any(case):
    if case.get("cli"):
        return run_cli_case(case)
    return run_case(case)


def worker(args):
    from hypothesis import given, settings, seed, HealthCheck, strategies as st, Phase
    rec = pbt.Recorder(PID)
    step = st.one_of(
        st.tuples(st.just("key"), st.integers(0, len(KEYSET) - 1)),
        st.tuples(st.just("key"), st.sampled_from([2, 7, 10, 6, 3])),  # F3, Down, Enter, Up, F4
        st.tuples(st.just("paste"), st.lists(st.integers(0, len(KEYSET) - 1), min_size=2, max_size=6)),
        st.tuples(st.just("paste"), st.lists(st.integers(0, 12), min_size=2, max_size=5)),  # bursts of tab / selection / view keys
        st.tuples(st.just("mouse"), st.integers(0, 7), st.sampled_from([0, 1, 2, 5, 9, 11, 30, 49, 79, 200, 300]), st.sampled_from([0, 1, 2, 3, 4, 8, 15, 23, 49, 100, 250])),
        st.tuples(st.just("click_tab"), st.integers(0, 4)),
        st.tuples(st.just("resize"), st.integers(0, len(SIZES_R) - 1), st.integers(0, len(SIZES_C) - 1)),
        st.tuples(st.just("feed"), st.integers(0, 5), st.integers(0, 3)),
        st.tuples(st.just("mouse"), st.sampled_from([0, 0, 2, 1]), st.integers(0, 12), st.integers(0, 60)),  # left button in the touchscreen column
        st.tuples(st.just("wait_expiry")),
        st.tuples(st.just("feed_tab"), st.integers(2, 5), st.integers(0, 3), st.integers(0, 4)),
        st.tuples(st.just("server_drop"), st.integers(0, 1)),
        st.tuples(st.just("crowd"), st.integers(0, 2)),
        st.tuples(st.just("noise"), st.integers(0, len(NOISE) - 1)),
        st.tuples(st.just("flood"), st.integers(0, 3)),
        st.tuples(st.just("bounce"), st.integers(0, 3)),
        # several aircraft in one coverage cell, then each tab in turn
        st.sampled_from([("feed_tab", 3, 2, 1), ("feed_tab", 2, 2, 0), ("feed_tab", 4, 2, 2), ("feed_tab", 2, 1, 1), ("feed_tab", 5, 2, 3), ("feed_tab", 3, 3, 3), ("feed_tab", 2, 3, 3), ("feed_tab", 4, 3, 0)]),
    )
    session = st.fixed_dictionaries({
        "flags": st.one_of(st.lists(st.integers(0, len(FLAGS) - 1), max_size=3), st.lists(st.integers(0, len(FLAGS) - 1), max_size=2).map(lambda l: [0] + l), st.lists(st.integers(0, len(FLAGS) - 1), max_size=2).map(lambda l: [7] + l)),
        "rows": st.one_of(st.integers(0, len(SIZES_R) - 1), st.integers(0, 3)),
        "cols": st.one_of(st.integers(0, len(SIZES_C) - 1), st.integers(0, 3)),
        "expiry": st.booleans(),
        "steps": st.lists(step, max_size=18),
        "quit": st.sampled_from([0, 1, 0, 1, 2, 3]),
        "no_server": st.sampled_from([False, False, False, False, False, True]),
        "locations": st.one_of(st.none(), st.just(["(home,52.1,4.2)"]), st.just(["(a,51.0,3.0)", "(b,53.5,6.5)"])),
        "scale": st.one_of(st.none(), st.sampled_from([0.12, 0.01, 5.0, 1e-9, 1e9, 0.0, -1.0, -0.12, "nan", "inf"])),
        "rx": st.integers(0, len(RXS) - 1),
        "wait_keys": st.lists(st.one_of(st.lists(st.integers(5, len(KEYSET) - 1), min_size=1, max_size=4), st.integers(5, 30).map(lambda k: [k] * 150)), max_size=3),
        "gpsd_server": st.sampled_from([None, None, None, None, None, "silent", "talking", "badproto"]),
    })
    cli = st.fixed_dictionaries({"cli": st.just(True), "opt": st.sampled_from(sorted(BAD_VALUES) + ["--locations", "--locations"]), "val": st.integers(0, 23), "extra_location": st.booleans()})
    # (one_of over strategies of very different size favours the small one: pick the kind explicitly;
    # the CLI grammar is also swept completely on every run)
    case_s = st.sampled_from(list(range(10))).flatmap(lambda k: cli if k == 0 else session)

    @seed(args.seed * 1000 + 17 * 7 + args.worker)
    @settings(max_examples=args.n, deadline=None, database=None, suppress_health_check=list(HealthCheck), phases=[Phase.generate, Phase.shrink], report_multiple_bugs=False)
    @given(case_s)
    def prop(case):
        try:
            fails = run_any(case)
        except Inconclusive:
            rec.inconclusive += 1
            return
        cls, nontrivial = classify(case)
        rec.judge(case, fails, nontrivial, cls)

    err = None
    try:
        prop()
    except AssertionError:
        pass
    except Exception:
        import traceback
        if rec.failure is None:
            err = traceback.format_exc()[-1500:]
    rec.dump(args.out, err)


def replay(path):
    case = json.load(open(path))
    for attempt in range(3):
        try:
            fails = run_any(case)
        except Inconclusive as e:
            print("inconclusive attempt:", e)
            continue
        if fails:
            for sig, msg in fails:
                print(f"  signature={sig} :: {msg}")
            print(f"VIOLATION property={PID} replay={path}")
            return 1
    print(f"replay {path}: property {PID} held in 3 attempts")
    return 0


def main():
    ap = argparse.ArgumentParser()
    ap.add_argument("tier", nargs="?", default="quick")
    ap.add_argument("--worker", type=int)
    ap.add_argument("--n", type=int, default=10)
    ap.add_argument("--seed", type=int, default=int(os.environ.get("VERIF_SEED", "1")))
    ap.add_argument("--tier", dest="tier2")
    ap.add_argument("--out")
    ap.add_argument("--replay")
    a = ap.parse_args()
    if a.replay:
        sys.exit(replay(a.replay))
    if a.worker is not None:
        worker(a)
        return
    tier = a.tier
    per = 14 if tier == "quick" else 500
    rc = pbt.run_parallel(
        PID, os.path.abspath(__file__), tier, 12, per, "exploration",
        "Hypothesis-generated sessions with the radar binary on a real pty: start options (touchscreen, disable flags, limit-parsing, retry, locations, scale incl. 0/negative/huge), initial terminal size from {1..120} x {1..250}, then up to 18 steps from {key, burst of keys in one write, SGR mouse event at arbitrary/out-of-window coordinates, click on a tab, resize + SIGWINCH, feed of 0-5 aircraft with or without positions, wait for expiry with --filter-time 1}; after every step the process must be alive with no panic on stderr; then quit by q or Ctrl-C (also while waiting for the first connection): exit 0, termios equal to the snapshot taken before start, mouse reporting off, cursor visible. Swept on every run: every pair of selection/view keys in one burst on every tab (no aircraft, aircraft, just expired), receiver positions incl. NaN/inf/poles/antimeridian with positioned aircraft. Separately: invalid values for every value-taking option must give a clap usage error (status 2), not a panic. non-trivial = size < 5 in a dimension, Airplanes/Stats tab with no aircraft, aircraft expiring, quit without server, or a CLI case; distinct by hash of the case",
        ["each step waits 120 ms for the event loop (50 ms read timeout + 10 ms poll); a crash that needs longer than that after its trigger is attributed to a later step", "a client that does not connect within 10 s is inconclusive"],
        a.seed,
        regress_one=run_any,
        # the invalid-value grammar is finite: swept completely on every run
        extra_cases=[{"cli": True, "opt": o, "val": i, "extra_location": e} for o in sorted(BAD_VALUES) for i in range(len(BAD_VALUES[o])) for e in ((False, True) if o == "--locations" else (False,))] + burst_cases(),
        exhaustive=True,
    )
    sys.exit(rc)


if __name__ == "__main__":
    main()
