#!/usr/bin/env python3
"""C16: both clients treat the feed as a byte stream; malformed lines are skipped; disconnects."""
import sys, os, json, time, argparse, re

sys.path.insert(0, os.path.dirname(os.path.abspath(__file__)))
import frames as F
from appdriver import RadarSession, Dump1090Session, Inconclusive, terminal_restored
import pbt

PID = "C16"
AIRCRAFT = [0x4840D6, 0xABC001, 0x3C6586]
RX = (52.0, 4.0)


def build_pool():
    """60 distinct CRC-valid frames of three aircraft (ident, positions along a flight, velocity)"""
    pool = []
    for k in range(60):
        a = AIRCRAFT[k % 3]
        j = k // 3
        kind = j % 4
        if kind == 0:
            pool.append(F.ident(a, f"T{k:03d}X"))
        elif kind in (1, 2):
            lat, lon = F.destination(RX[0], RX[1], 40.0 + 110 * (k % 3), 30.0 + 0.4 * j)
            pool.append(F.position(a, lat, lon, kind - 1, alt_ft=9000 + 25 * k))
        else:
            pool.append(F.velocity(a, 100 + k, -50 - k, 64 * (k % 7)))
    assert len({p for p in pool}) == 60
    # twelve more (appended: indices of saved cases stay valid): addresses and payloads made of
    # the byte values a hand-written hex decoder gets wrong first - ff, 00, f0, 0f, a9/9a
    for k, a in enumerate([0xFF00FF, 0x00FFFF, 0xF00FFF, 0xA99AFF]):
        pool.append(F.ident(a, f"ZZ{k}"))
        lat, lon = F.destination(RX[0], RX[1], 200.0 + 30 * k, 25.0 + k)
        pool.append(F.position(a, lat, lon, 0, alt_ft=31975 + 25 * k))
        pool.append(F.position(a, lat, lon, 1, alt_ft=31975 + 25 * k))
    assert len({p for p in pool}) == 72
    return pool


POOL = build_pool()
SENTINELS = [F.ident(0x00BEEF, f"END{i}") for i in range(4)]
OTHER = F.ident(0x123456, "NOTINW").hex()
# a frame that only ever occurs inside lines that are malformed as a whole (non-ASCII garbage
# before or inside it): it must never be processed
EMBEDDED = F.ident(0x654321, "EMBEDD").hex()

MALFORMED = [
    b"\n",
    b"*\n",
    b";\n",
    b"*;\n",
    b"*8d;\n",
    b"*8d4;\n",
    b"*zz11zz11zz11zz;\n",
    "é*8d4840d6202cc371c32ce0576098;\n".encode(),
    "*é8d4840d6202cc371c32ce0576098;\n".encode(),
    "*8d4840d6202cc371c32ce0576098é;\n".encode(),
    "*8d4840d6é202cc371c32ce0576098;\n".encode(),
    "日本\n".encode(),
    b"*\xff\xfe\xfd;\n",
    b"\xc3\n",
    b"*00000000000000;\n",
    b"*0000000000000000000000000000;\n",
    b"*08000000000000;\n",
    b"*b8000000000000000000000000;\n",
    b"*8d4840d6;\n",
    b"*8d4840d6202cc371c32ce05760;\n",
    (OTHER + "\n").encode(),
    ("*" + OTHER + "\n").encode(),
    (OTHER + ";\n").encode(),
    b"*" + b"ab" * 3000 + b";\n",
    b"@0123456789ab8d4840d6202cc371c32ce0576098;\n",
    b" \n",
    b"**;;\n",
    b"*8d48\xff\xff40d6;\n",
    b"\xc3( noise *" + EMBEDDED.encode() + b";\n",
    "日本*".encode() + EMBEDDED.encode() + b";\n",
    b"*" + EMBEDDED[:10].encode() + b"\xff" + EMBEDDED[10:].encode() + b";\n",
    b"\xe2\x82*" + EMBEDDED.encode() + b";\n",
    b"*98aabbcc;\n",                          # DF19 cut short (its parser needs one byte only)
    b"*a0001910204d7075d35820c25c;\n",         # DF20 cut short by one byte (its struct has no parity field)
    b"*98;\n",
    b"*a8001910204d7075d35820c25c0c;\n"[:-4] + b";\n",  # DF21 cut short
]

DELAYS = [0.0, 0.0, 0.005, 0.03, 0.07, 0.15, 0.15, 0.4]


def materialise(case):
    """case -> (list of (kind, bytes, pool index or None), stream bytes, segments[(bytes, delay)], W (list of hex))"""
    items = []
    seen = set()
    for it in case["items"]:
        if it[0] in ("g", "gr", "gg", "gU"):
            if it[1] in seen:
                continue
            seen.add(it[1])
            ln = F.line(POOL[it[1]])
            if it[0] == "gr":
                ln = ln[:-1] + b"\r\n"  # the same well-formed line on a CRLF feed
            if it[0] == "gU":
                ln = ln.upper()  # dump1090 writes upper-case hex digits
            items.append(("g", ln, it[1]))
            if it[0] == "gg":
                # the same line again, right behind (a relayed copy, an aircraft alone on the
                # feed repeating its identification): every complete line counts
                items.append(("g", ln, it[1]))
                items.append(("g", ln, it[1]))
        else:
            items.append(("b", MALFORMED[it[1] % len(MALFORMED)], None))
    stream = b"".join(x[1] for x in items)
    # cuts: permille positions, or structural ones ("s", line index, where): just after the first
    # byte, in the middle, before the ';' and before the terminating newline of a line
    offs = []
    off = 0
    for x in items:
        offs.append((off, len(x[1])))
        off += len(x[1])
    cutset = set()
    forced = set()  # cuts that are always followed by a pause longer than the clients' read timeout
    nonascii = [i for i, x in enumerate(items) if any(ch >= 0x80 for ch in x[1])]
    quiet = set()  # cuts followed by a long silence (seconds, not milliseconds)
    longquiet = set()
    for c in case["cuts"]:
        if isinstance(c, (list, tuple)) and c[0] == "Q":
            # a long silence (22 s) on a healthy connection before line i
            a, n = offs[c[1] % len(offs)]
            if a > 0:
                cutset.add(a)
                longquiet.add(a)
        elif isinstance(c, (list, tuple)) and c[0] == "q":
            # the feed falls silent for 2.6 s before line i starts
            a, n = offs[c[1] % len(offs)]
            if not quiet and a > 0:  # (one silence per case)
                cutset.add(a)
                quiet.add(a)
        elif isinstance(c, (list, tuple)) and c[0] == "u":
            # inside a line with non-ASCII bytes: just before the first such byte, after it, or
            # just after the last one - the pieces on the two sides differ in UTF-8 validity
            if not nonascii:
                continue
            i = nonascii[c[1] % len(nonascii)]
            a, n = offs[i]
            hi = [k for k, ch in enumerate(items[i][1]) if ch >= 0x80]
            rel = [hi[0], hi[0] + 1, hi[-1] + 1][c[2] % 3]
            if 0 < rel < n:
                cutset.add(a + rel)
                forced.add(a + rel)
        elif isinstance(c, (list, tuple)):
            a, n = offs[c[1] % len(offs)]
            rel = [1, n // 2, max(n - 2, 0), max(n - 1, 0)][c[2] % 4]
            cutset.add(a + rel)
        else:
            cutset.add(int(c * len(stream) / 10000))
    cuts = sorted(cutset - {0, len(stream)}) if stream else []
    bounds = [0] + cuts + [len(stream)]
    segs = []
    long_budget = 2.5
    for i in range(len(bounds) - 1):
        d = DELAYS[case["delays"][i % len(case["delays"])] % len(DELAYS)] if case["delays"] else 0.0
        if bounds[i + 1] in forced:
            d = 0.15
        if bounds[i + 1] in longquiet:
            segs.append((stream[bounds[i]:bounds[i + 1]], 22.0))
            continue
        if bounds[i + 1] in quiet:
            segs.append((stream[bounds[i]:bounds[i + 1]], 2.6))
            continue
        if d > 0.05:
            if long_budget - d < 0:
                d = 0.0
            else:
                long_budget -= d
        segs.append((stream[bounds[i]:bounds[i + 1]], d))
    return items, stream, segs


def line_spans(items):
    spans = []
    off = 0
    for kind, b, idx in items:
        spans.append((off, off + len(b), kind, idx))
        off += len(b)
    return spans


def expected_w(items, stream_len, drop_at=None):
    """W = hex of the good lines completely delivered on one connection, in order.
    drop_at: byte offset at which the connection is dropped (lines straddling it are excluded)"""
    w = []
    for (a, b, kind, idx) in line_spans(items):
        if kind != "g":
            continue
        if drop_at is not None and a < drop_at < b:
            continue
        w.append(POOL[idx].hex())
    return w


def in_order_once(observed, w):
    wset = set(w)
    got = [x for x in observed if x in wset]
    return got == w, got


def run_1090(case):
    fails = []
    items, stream, segs = materialise(case)
    w = expected_w(items, len(stream))
    # (--panic-display only concerns frames without a text form; none of the pool's are)
    s = Dump1090Session("c16", opts=(["--debug"] if case.get("dbg") else []) + (["--panic-display"] if case.get("pdisp") else []))
    try:
        try:
            s.srv.send_segments(segs)
        except OSError as e:
            fails.append(("C16/1090/left_without_disconnect", f"1090 closed the connection ({e.__class__.__name__}) although the server never disconnected; alive: {s.alive()}"))
            return fails, w
        sent = SENTINELS[0].hex()
        s.send(b"\n" + F.line(SENTINELS[0]))
        ok = s.wait_for(lambda: sent in s.lines(), 10.0)
        crashed = not s.alive()
        if crashed:
            fails.append(("C16/1090/terminated", f"1090 terminated (status {s.proc.returncode}) while processing the feed: {s.err.decode(errors='replace')[-300:]}"))
        elif not ok:
            # is the client still responsive?
            s.send(b"\n" + F.line(SENTINELS[1]))
            if s.wait_for(lambda: SENTINELS[1].hex() in s.lines(), 10.0):
                fails.append(("C16/1090/line_lost", "a well-formed line sent after the feed was never processed although a later one was"))
            elif s.alive():
                s.send(b"\n" + F.line(SENTINELS[2]))
                if s.wait_for(lambda: SENTINELS[2].hex() in s.lines(), 6.0):
                    fails.append(("C16/1090/line_lost", "well-formed lines sent after the feed were not processed"))
                else:
                    fails.append(("C16/1090/stuck", "1090 is alive but processes no further well-formed line (three sentinels sent over 26 s)"))
            else:
                fails.append(("C16/1090/terminated", f"1090 terminated: {s.err.decode(errors='replace')[-300:]}"))
        if not crashed:
            # (1090 echoes the hex text as it came: digits are compared case-insensitively)
            lines = [l.lower() if re.fullmatch(r"[0-9A-Fa-f]+", l) else l for l in s.lines()]
            if OTHER in lines:
                fails.append(("C16/1090/unframed_processed", "a frame that only ever occurs in lines without the leading '*' or the closing ';' was processed"))
            if EMBEDDED in lines:
                fails.append(("C16/1090/malformed_processed", "part of a line that is malformed as a whole (non-ASCII bytes before or inside the frame) was processed as a frame"))
            good, got = in_order_once(lines, w)
            if not good:
                missing = [x for x in w if x not in got]
                dup = [x for x in set(got) if got.count(x) > 1]
                what = "lost" if missing else ("duplicated" if dup else "reordered")
                fails.append((f"C16/1090/{what}", f"well-formed lines {what}: expected {len(w)} in order, observed {len(got)}; first missing {missing[:1]}, duplicated {dup[:1]}"))
            else:
                # each processed line is followed by the library's rendering
                exp = F.helper({"cmd": "framedump", "frames": w})["frames"]
                text = "\n".join(lines)
                for hx, e in zip(w, exp):
                    i = text.find(hx + "\n")
                    # (with --debug the Debug form comes first: the report must still follow before the next line)
                    ok_dbg = case.get("dbg") and e["text"].strip() and e["text"].strip() in text[i:]
                    if e.get("ok") and not text[i + len(hx) + 1:].startswith(e["text"]) and not ok_dbg:
                        fails.append(("C16/1090/rendering", f"line {hx} is not followed by the decoded frame's report"))
                        break
    finally:
        s.close()
    return fails, w


def run_radar(case):
    fails = []
    items, stream, segs = materialise(case)
    drop = case.get("drop")
    opts = ["--retry-tcp"] if (drop and drop["retry"]) else []
    if case.get("limit"):
        opts.append("--limit-parsing")
    s = RadarSession("c16", rows=40, cols=120, lat=RX[0], lon=RX[1], opts=opts)
    try:
        drop_at = None
        if drop:
            drop_at = int(drop["at"] * len(stream) / 10000)
        w = expected_w(items, len(stream), drop_at)
        if drop_at is None:
            try:
                s.srv.send_segments(segs)
            except OSError as e:
                # the server never closed the connection: a client that went away did so on its own
                s.p.pump(0.5)
                fails.append(("C16/radar/left_without_disconnect", f"radar closed the connection ({e.__class__.__name__}) although the server never disconnected; alive: {s.alive()}, said: {s.stderr()[-200:]}"))
                return fails, w
        else:
            # send up to the drop point, close, (re-accept and) continue at the next line boundary
            sent = 0
            for data, d in segs:
                if sent + len(data) <= drop_at:
                    s.send(data)
                    sent += len(data)
                    if d:
                        time.sleep(d)
                else:
                    s.send(data[: drop_at - sent])
                    sent = drop_at
                    break
            time.sleep(0.15)
            before = s.log_bytes_lines()
            s.srv.drop(reset=bool(drop.get("reset")))
            if not drop["retry"]:
                rc = s.p.wait_exit(8.0)
                allout = bytes(s.p.out).decode(errors="replace")
                if rc is None:
                    fails.append(("C16/radar/no_exit_on_disconnect", "server closed the connection, radar (without --retry-tcp) kept running"))
                else:
                    if rc != 0 or s.panicked():
                        fails.append(("C16/radar/unclean_exit_on_disconnect", f"exit status {rc}; stderr {s.stderr()[-300:]}"))
                    if "TCP connection aborted" not in allout:
                        fails.append(("C16/radar/no_farewell", "no 'TCP connection aborted' message on disconnect"))
                    if s.p.termios_now() != s.p.termios_before:
                        fails.append(("C16/radar/terminal_not_restored", "terminal modes not restored after disconnect"))
                    for pr in terminal_restored(allout):
                        fails.append(("C16/radar/terminal_not_restored", pr))
                # lines delivered before the drop must have been processed exactly once, in order
                wb = [POOL[idx].hex() for (a, b, kind, idx) in line_spans(items) if kind == "g" and b <= drop_at]
                good, got = in_order_once(s.log_bytes_lines(), wb)
                if not good and rc is not None and rc == 0:
                    fails.append(("C16/radar/lost_before_disconnect", f"lines delivered before the disconnect: expected {len(wb)}, processed {len(got)}"))
                return fails, w
            # retry: radar must reconnect - also when the server is unreachable for a while in
            # between (connection attempts that time out instead of being refused)
            if drop.get("stall"):
                s.srv.stall()
                time.sleep(12.0)
                s.srv.unstall()
                if not s.alive():
                    fails.append(("C16/radar/terminated_on_disconnect", f"radar --retry-tcp terminated while the server was unreachable (connection attempts timing out): {s.stderr()[-300:]}"))
                    return fails, w
            if drop.get("gone"):
                # the server goes away completely: every attempt is refused for a while
                s.srv.go_away()
                time.sleep(float(drop["gone"]))
                alive = s.alive()
                if not s.srv.come_back():
                    raise Inconclusive("the feed port could not be taken back after the outage")
                if not alive or not s.alive():
                    fails.append(("C16/radar/terminated_on_disconnect", f"radar --retry-tcp terminated while the server was away for {drop['gone']} s (connection attempts refused): {s.stderr()[-300:]}"))
                    return fails, w
            if not (s.srv.accept_real(30.0) if drop.get("stall") else s.srv.accept(12.0)):
                if not s.alive():
                    fails.append(("C16/radar/terminated_on_disconnect", f"radar --retry-tcp terminated after the disconnect: {s.stderr()[-300:]}"))
                    return fails, w
                raise Inconclusive("radar --retry-tcp did not reconnect within 12 s")
            # continue at the next line boundary after the drop point
            nxt = next((a for (a, b, kind, idx) in line_spans(items) if a >= drop_at), len(stream))
            rest = stream[nxt:]
            s.send(rest)
        sentinel = SENTINELS[0].hex()
        s.send(b"\n" + F.line(SENTINELS[0]))
        ok = s.wait_log_contains(sentinel, 10.0)
        if not s.alive():
            fails.append(("C16/radar/terminated", f"radar terminated (status {s.p.proc.returncode}) while processing the feed: {s.stderr()[-400:]}"))
            return fails, w
        if not ok:
            s.send(b"\n" + F.line(SENTINELS[1]))
            if s.wait_log_contains(SENTINELS[1].hex(), 10.0):
                fails.append(("C16/radar/line_lost", "a well-formed line sent after the feed was never processed although a later one was"))
            elif s.alive():
                # still not processed: try once more after a pause; a client that swallows every later line is broken
                s.send(b"\n" + F.line(SENTINELS[2]))
                if s.wait_log_contains(SENTINELS[2].hex(), 6.0):
                    fails.append(("C16/radar/line_lost", "well-formed lines sent after the feed were not processed"))
                else:
                    fails.append(("C16/radar/stuck", "radar is alive but processes no further well-formed line (three sentinels sent over 26 s)"))
            else:
                fails.append(("C16/radar/terminated", f"radar terminated: {s.stderr()[-400:]}"))
            return fails, w
        if OTHER in s.log_bytes_lines():
            fails.append(("C16/radar/unframed_processed", "a frame that only ever occurs in lines without the leading '*' or the closing ';' was processed"))
        if EMBEDDED in s.log_bytes_lines():
            fails.append(("C16/radar/malformed_processed", "part of a line that is malformed as a whole (non-ASCII bytes before or inside the frame) was processed as a frame"))
        good, got = in_order_once(s.log_bytes_lines(), w)
        if not good:
            missing = [x for x in w if x not in got]
            dup = [x for x in set(got) if got.count(x) > 1]
            what = "lost" if missing else ("duplicated" if dup else "reordered")
            fails.append((f"C16/radar/{what}", f"well-formed lines {what}: expected {len(w)} in order, processed {len(got)}; first missing {missing[:1]}, duplicated {dup[:1]}"))
        else:
            # tracker keeps its aircraft (also across a reconnect): message counts on the Airplanes tab
            exp = F.helper({"cmd": "trackdump", "frames": w + [SENTINELS[0].hex()], "rx": list(RX), "range": 500.0, "limit_parsing": bool(case.get("limit"))})
            s.press("F3")
            want = {k: v["num_messages"] for k, v in exp["dump"]["records"].items()}

            def rows_ok():
                scr = s.fresh_screen()
                found = {}
                for r in range(scr.rows):
                    ln = scr.line(r)
                    for k in want:
                        i = ln.find(k)
                        if i >= 0 and i < 8:
                            parts = ln[i:].split()
                            try:
                                found[k] = int(parts[-2]) if parts[-1] == "│" else int(parts[-1])
                            except (ValueError, IndexError):
                                pass
                return found == want, found

            if not s.wait_for(lambda: rows_ok()[0], 5.0):
                _, found = rows_ok()
                if s.alive():
                    fails.append(("C16/radar/counts", f"Airplanes tab message counts {found}, the processed lines give {want}"))
                else:
                    fails.append(("C16/radar/terminated", f"radar terminated: {s.stderr()[-400:]}"))
            elif drop and drop.get("retry") and not case.get("limit"):
                # ... and what it counted before the outage: "Total Airplanes" of the Stats tab is
                # the number of aircraft added on both connections together
                def total_shown():
                    scr = s.fresh_screen()
                    for r in range(scr.rows):
                        ln = scr.line(r)
                        if "Total Airplanes" in ln:
                            parts = ln.split()
                            return parts[-2] if parts[-1] == "│" else parts[-1]
                    return None

                s.press("F4")
                want_total = str(exp["total_added"])
                if not s.wait_for(lambda: total_shown() == want_total, 5.0) and s.alive():
                    fails.append(("C16/radar/stats_after_reconnect", f"after the reconnect the Stats tab shows Total Airplanes {total_shown()}, {want_total} aircraft were added on the two connections together"))
        q = s.quit("q", 5.0)
        if q["rc"] != 0:
            fails.append(("C16/radar/quit", f"quit after the feed: exit status {q['rc']}"))
    finally:
        s.close()
    return fails, w


def classify(case):
    items, stream, segs = materialise(case)
    spans = line_spans(items)
    cls = [f"client:{case['client']}"]
    if case["client"] == "1090" and case.get("pdisp"):
        cls.append("1090 --panic-display")
    if case["client"] == "1090" and case.get("dbg"):
        cls.append("1090 --debug")
    kinds = [x[0] for x in items]
    bad_then_good = any(k == "b" and "g" in kinds[i + 1:] for i, k in enumerate(kinds))
    cut_in_good_slow = False
    off = 0
    for data, d in segs[:-1]:
        off += len(data)
        if d > 0.05 and any(a < off < b and kind == "g" for (a, b, kind, _) in spans):
            cut_in_good_slow = True
    off = 0
    for data, d in segs[:-1]:
        off += len(data)
        if d > 0.05 and any(a < off < b and kind == "b" and any(ch >= 0x80 for ch in stream[a:b]) for (a, b, kind, _) in spans):
            cls.append("pause > 50 ms inside a non-ASCII line")
            break
    if bad_then_good:
        cls.append("malformed then well-formed")
    if cut_in_good_slow:
        cls.append("pause > 50 ms inside a well-formed line")
    if case.get("drop"):
        cls.append("drop with retry" if case["drop"]["retry"] else "drop without retry")
        if case["drop"].get("reset"):
            cls.append("abortive drop (RST)")
    if len(segs) > 3:
        cls.append("fragmented")
    return cls, (bad_then_good or cut_in_good_slow or bool(case.get("drop")))


def run_case(case):
    try:
        if case["client"] == "1090":
            return run_1090(case)
        return run_radar(case)
    except (BrokenPipeError, ConnectionResetError) as e:
        # the harness could not write to the client any more.  If the server side never dropped
        # the connection, the client went away on its own: it took a healthy connection for a
        # broken one (or crashed without the session noticing)
        if not case.get("drop"):
            return [(f"C16/{case['client']}/left_without_disconnect", f"the client closed the connection ({e.__class__.__name__}) although the server never disconnected")], []
        raise


def worker(args):
    from hypothesis import given, settings, seed, HealthCheck, strategies as st, Phase
    rec = pbt.Recorder(PID)
    item = st.one_of(st.tuples(st.just("g"), st.integers(0, 59)), st.tuples(st.just("g"), st.integers(0, 59)), st.tuples(st.just("gr"), st.integers(0, 59)), st.tuples(st.just("gg"), st.integers(0, 71)), st.tuples(st.just("gU"), st.integers(0, 71)), st.tuples(st.just("g"), st.integers(60, 71)), st.tuples(st.just("b"), st.integers(0, len(MALFORMED) - 1)), st.tuples(st.just("b"), st.integers(0, len(MALFORMED) - 1)))
    drop = st.one_of(st.none(), st.none(), st.fixed_dictionaries({"at": st.integers(1, 9999), "retry": st.booleans(), "reset": st.booleans()}))
    case_s = st.fixed_dictionaries({
        "client": st.sampled_from(["1090", "radar", "radar"]),
        "items": st.lists(item, min_size=1, max_size=24),
        "cuts": st.lists(st.one_of(st.integers(0, 10000), st.tuples(st.just("s"), st.integers(0, 23), st.integers(0, 3)), st.tuples(st.just("u"), st.integers(0, 23), st.integers(0, 2)), st.tuples(st.just("q"), st.integers(0, 23))), max_size=24),
        "delays": st.lists(st.integers(0, len(DELAYS) - 1), min_size=1, max_size=8),
        "drop": drop,
        "limit": st.sampled_from([False, False, True]),
        "dbg": st.sampled_from([False, False, False, True]),
        "pdisp": st.sampled_from([False, False, True]),
    })

    @seed(args.seed * 1000 + args.worker)
    @settings(max_examples=args.n, deadline=None, database=None, suppress_health_check=list(HealthCheck), phases=[Phase.generate, Phase.shrink], report_multiple_bugs=False, derandomize=False)
    @given(case_s)
    def prop(case):
        if case["client"] == "1090":
            case = dict(case, drop=None)
        try:
            fails, w = run_case(case)
        except Inconclusive as e:
            rec.inconclusive += 1
            return
        cls, nontrivial = classify(case)
        rec.judge(case, fails, nontrivial, cls)

    err = None
    try:
        prop()
    except AssertionError:
        pass
    except Exception as e:  # harness problem
        import traceback
        if rec.failure is None:
            err = traceback.format_exc()[-1500:]
    rec.dump(args.out, err)


def replay(path):
    case = json.load(open(path))
    for attempt in range(5):
        try:
            fails, _ = run_case(case)
        except Inconclusive as e:
            print("inconclusive attempt:", e)
            continue
        if fails:
            for sig, msg in fails:
                print(f"  signature={sig} :: {msg}")
            print(f"VIOLATION property={PID} replay={path}")
            return 1
    print(f"replay {path}: property {PID} held in 5 attempts (timing-dependent failures may not reproduce)")
    return 0


def main():
    ap = argparse.ArgumentParser()
    ap.add_argument("tier", nargs="?", default="quick")
    ap.add_argument("--worker", type=int)
    ap.add_argument("--n", type=int, default=10)
    ap.add_argument("--seed", type=int, default=int(os.environ.get("VERIF_SEED", "1")))
    ap.add_argument("--tier", dest="tier2")
    ap.add_argument("--out")
    ap.add_argument("--replay")
    a = ap.parse_args()
    if a.replay:
        sys.exit(replay(a.replay))
    if a.worker is not None:
        worker(a)
        return
    tier = a.tier
    nworkers = 12
    per = 24 if tier == "quick" else 600
    rc = pbt.run_parallel(
        PID, os.path.abspath(__file__), tier, nworkers, per, "exploration",
        "Hypothesis-generated feeds (well-formed lines of CRC-valid frames of 3 aircraft interleaved with 36 kinds of malformed line), arbitrary segmentation of the byte stream with inter-segment delays on both sides of the 50 ms read timeout, server-side connection drops at arbitrary byte offsets with and without --retry-tcp; both clients as black boxes (1090: stdout; radar: pty + debug log). Oracle: the well-formed lines delivered completely on one connection are processed exactly once and in order (log / stdout restricted to that set), followed by the library's rendering (1090) / reflected in the Airplanes tab counts (radar); client alive afterwards; on disconnect exit 0 + farewell + terminal restored, or reconnect with --retry-tcp. non-trivial = malformed line followed by a well-formed one, or a pause > 50 ms inside a well-formed line, or a drop; distinct by hash of the case",
        ["the verdict never depends on measured time: delays only steer which code path runs", "a case in which the client is alive but unresponsive to three sentinels is reported as stuck; a client that does not connect is inconclusive", "lines cut by a server-side drop are excluded from the expected set"],
        a.seed,
        regress_one=lambda c: run_case(c)[0],
        # played on every run: the server drops the connection and is then unreachable (attempts
        # time out instead of being refused) for longer than one connection timeout
        extra_cases=[{"client": "radar", "items": [["g", 3], ["g", 7], ["b", 4], ["g", 11], ["g", 12]], "cuts": [], "delays": [0], "drop": {"at": 5000, "retry": True, "reset": r, "stall": True}, "limit": False} for r in (False, True)]
        # every line of the pool three times in a row, and once in upper-case digits (both clients)
        + [{"client": cl, "items": [["gg", k] for k in range(h * 36, h * 36 + 36)], "cuts": [], "delays": [0], "drop": None, "limit": False} for cl in ("1090", "radar") for h in (0, 1)]
        + [{"client": cl, "items": [["gU", k] for k in range(72)], "cuts": [], "delays": [0], "drop": None, "limit": False} for cl in ("1090", "radar")]
        # 22 s without a byte on a connection that stays up, then more lines (both clients)
        + [{"client": cl, "items": [["g", 3], ["g", 7], ["g", 11], ["g", 12], ["g", 13], ["g", 14]], "cuts": [["Q", 4]], "delays": [0], "drop": None, "limit": False} for cl in ("1090", "radar")]
        # a line cut in two (pause longer than the read timeout) right after the feed was silent for 2.6 s
        + [{"client": cl, "items": [["g", 3], ["g", 7], ["g", 11], ["g", 12], ["g", 13]], "cuts": [["q", 2], ["s", 2, w], ["s", 4, 1]], "delays": [5], "drop": None, "limit": False} for cl in ("1090", "radar") for w in (1, 2)]
        # ... and the server goes away completely (attempts refused) for 1, 4 and 9 seconds
        + [{"client": "radar", "items": [["g", 3], ["g", 7], ["b", 4], ["g", 11], ["g", 12]], "cuts": [], "delays": [0], "drop": {"at": 5000, "retry": True, "reset": g == 4, "gone": g}, "limit": False} for g in (1, 4, 9)]
        # ... and every malformed kind, each followed by a well-formed line, under every option set of both clients
        + [{"client": "1090", "items": [x for k in range(len(MALFORMED)) for x in (["b", k], ["g", k % 60])], "cuts": [], "delays": [0], "drop": None, "limit": False, "dbg": d, "pdisp": pd} for d in (False, True) for pd in (False, True)]
        + [{"client": "radar", "items": [x for k in range(len(MALFORMED)) for x in (["b", k], ["g", (k + 30) % 60])], "cuts": [], "delays": [0], "drop": None, "limit": lim} for lim in (False, True)],
    )
    sys.exit(rc)


if __name__ == "__main__":
    main()
