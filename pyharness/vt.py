"""Minimal VT100/xterm screen emulator: enough for crossterm + ratatui output."""
import re


class Screen:
    def __init__(self, rows, cols):
        self.rows, self.cols = rows, cols
        self.reset_cells()
        self.r = 0
        self.c = 0
        self.fg = None
        self.bg = None
        self.bold = False
        self.cursor_visible = True
        self.modes = {}  # private modes: number -> bool
        self.alt = False

    def reset_cells(self):
        self.cells = [[(" ", None, False) for _ in range(self.cols)] for _ in range(self.rows)]

    def resize(self, rows, cols):
        self.rows, self.cols = rows, cols
        self.reset_cells()
        self.r = self.c = 0

    def put(self, ch):
        if 0 <= self.r < self.rows and 0 <= self.c < self.cols:
            self.cells[self.r][self.c] = (ch, self.fg, self.bold)
        self.c += 1

    def feed(self, data: bytes):
        s = data.decode("utf-8", errors="replace")
        i = 0
        n = len(s)
        while i < n:
            ch = s[i]
            if ch == "\x1b":
                if i + 1 >= n:
                    break
                nx = s[i + 1]
                if nx == "[":
                    m = re.compile(r"\x1b\[([?<>=]?)([0-9;:]*)([ -/]*)([@-~])").match(s, i)
                    if not m:
                        break
                    self.csi(m.group(1), m.group(2), m.group(4))
                    i = m.end()
                    continue
                elif nx == "]":
                    j = s.find("\x07", i)
                    k = s.find("\x1b\\", i)
                    e = min([x for x in (j, k) if x >= 0], default=-1)
                    if e < 0:
                        break
                    i = e + (1 if e == j else 2)
                    continue
                elif nx in "()":
                    i += 3
                    continue
                else:
                    i += 2
                    continue
            elif ch == "\r":
                self.c = 0
            elif ch == "\n":
                self.r = min(self.r + 1, self.rows - 1)
            elif ch == "\b":
                self.c = max(0, self.c - 1)
            elif ch == "\t":
                self.c = (self.c // 8 + 1) * 8
            elif ord(ch) < 32:
                pass
            else:
                self.put(ch)
            i += 1
        return i

    def csi(self, priv, params, final):
        ps = [int(p) if p else 0 for p in params.replace(":", ";").split(";")] if params else []
        g = lambda k, d: (ps[k] if len(ps) > k and ps[k] else d)
        if priv == "?" and final in "hl":
            for p in ps:
                self.modes[p] = final == "h"
                if p == 25:
                    self.cursor_visible = final == "h"
                if p in (1049, 47, 1047):
                    self.alt = final == "h"
            return
        if priv:
            return
        if final in "Hf":
            self.r = g(0, 1) - 1
            self.c = g(1, 1) - 1
        elif final == "A":
            self.r = max(0, self.r - g(0, 1))
        elif final == "B":
            self.r = min(self.rows - 1, self.r + g(0, 1))
        elif final == "C":
            self.c = min(self.cols - 1, self.c + g(0, 1))
        elif final == "D":
            self.c = max(0, self.c - g(0, 1))
        elif final == "G":
            self.c = g(0, 1) - 1
        elif final == "d":
            self.r = g(0, 1) - 1
        elif final == "J":
            mode = g(0, 0)
            if mode in (2, 3):
                self.reset_cells()
            elif mode == 0:
                for c in range(max(self.c, 0), self.cols):
                    if 0 <= self.r < self.rows:
                        self.cells[self.r][c] = (" ", None, False)
                for r in range(self.r + 1, self.rows):
                    self.cells[r] = [(" ", None, False)] * self.cols
        elif final == "K":
            if 0 <= self.r < self.rows:
                mode = g(0, 0)
                rng = range(max(self.c, 0), self.cols) if mode == 0 else (range(0, min(self.c + 1, self.cols)) if mode == 1 else range(self.cols))
                for c in rng:
                    self.cells[self.r][c] = (" ", None, False)
        elif final == "m":
            if not ps:
                ps = [0]
            k = 0
            while k < len(ps):
                p = ps[k]
                if p == 0:
                    self.fg = None; self.bg = None; self.bold = False
                elif p == 1:
                    self.bold = True
                elif p == 22:
                    self.bold = False
                elif 30 <= p <= 37:
                    self.fg = p - 30
                elif 90 <= p <= 97:
                    self.fg = p - 90 + 8
                elif p == 39:
                    self.fg = None
                elif p == 38 and k + 2 < len(ps) + 1:
                    if k + 1 < len(ps) and ps[k + 1] == 5 and k + 2 < len(ps):
                        self.fg = ps[k + 2]; k += 2
                    elif k + 1 < len(ps) and ps[k + 1] == 2 and k + 4 < len(ps):
                        self.fg = (ps[k + 2], ps[k + 3], ps[k + 4]); k += 4
                elif p == 48:
                    if k + 1 < len(ps) and ps[k + 1] == 5:
                        k += 2
                    elif k + 1 < len(ps) and ps[k + 1] == 2:
                        k += 4
                k += 1

    def line(self, r):
        return "".join(c[0] for c in self.cells[r])

    def text(self):
        return "\n".join(self.line(r).rstrip() for r in range(self.rows))

    def find(self, needle):
        for r in range(self.rows):
            c = self.line(r).find(needle)
            if c >= 0:
                return (r, c)
        return None
