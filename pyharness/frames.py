"""Frame construction in Python (reference CPR encoder, Mode S parity) + access to the Rust helper."""
import math, json, subprocess, os

VERIF = os.environ.get("VERIF_DIR", "/verif")
GEN = 0x1FFF409


def refcrc(b: bytes) -> int:
    rem = 0
    for byte in b:
        for i in range(7, -1, -1):
            rem = (rem << 1) | ((byte >> i) & 1)
            if rem & 0x1000000:
                rem ^= GEN
    return rem & 0xFFFFFF


def fix_parity(frame: bytearray, target=0):
    p = refcrc(bytes(frame[:-3]) + b"\0\0\0") ^ target
    frame[-3:] = p.to_bytes(3, "big")
    return frame


def setbits(buf, start, length, val):
    for i in range(length):
        b = start - 1 + i
        bit = (val >> (length - 1 - i)) & 1
        m = 1 << (7 - b % 8)
        if bit:
            buf[b // 8] |= m
        else:
            buf[b // 8] &= ~m & 0xFF


def nl(lat):
    l = abs(lat)
    if l == 0:
        return 59
    if l == 87:
        return 2
    if l > 87:
        return 1
    a = 1 - math.cos(math.pi / 30)
    c = math.cos(math.radians(l))
    return int(math.floor(2 * math.pi / math.acos(1 - a / (c * c))))


def cpr_encode(lat, lon, odd):
    dl = 360.0 / (60 - odd)
    yz = math.floor(131072 * ((lat % dl) / dl) + 0.5)
    rlat = dl * (yz / 131072 + math.floor(lat / dl))
    n = max(nl(rlat) - odd, 1)
    dlon = 360.0 / n
    xz = math.floor(131072 * ((lon % dlon) / dlon) + 0.5)
    return int(yz) % 131072, int(xz) % 131072


def squitter(aa, me: bytes, df=17, ca=5):
    f = bytearray(14)
    f[0] = (df << 3) | ca
    f[1:4] = aa.to_bytes(3, "big")
    f[4:11] = me
    return bytes(fix_parity(f, 0))


def alt_code(ft):
    n = (ft + 1000) // 25
    return ((n & 0x7F0) << 1) | 0x10 | (n & 0xF)


def position(aa, lat, lon, odd, alt_ft=10000, tc=11, df=17, ca=5):
    me = bytearray(7)
    yz, xz = cpr_encode(lat, lon, odd)
    setbits(me, 1, 5, tc)
    setbits(me, 9, 12, alt_code(alt_ft))
    setbits(me, 22, 1, odd)
    setbits(me, 23, 17, yz)
    setbits(me, 40, 17, xz)
    return squitter(aa, bytes(me), df, ca)


CHARS = "#ABCDEFGHIJKLMNOPQRSTUVWXYZ##### ###############0123456789######"


def ident(aa, callsign, tc=4, df=17):
    me = bytearray(7)
    setbits(me, 1, 5, tc)
    cs = (callsign + "        ")[:8]
    for i, ch in enumerate(cs):
        setbits(me, 9 + 6 * i, 6, CHARS.index(ch))
    return squitter(aa, bytes(me), df)


def velocity(aa, ew_kt, ns_kt, vr_fpm=0, df=17):
    me = bytearray(7)
    setbits(me, 1, 5, 19)
    setbits(me, 6, 3, 1)
    setbits(me, 14, 1, 1 if ew_kt < 0 else 0)
    setbits(me, 15, 10, abs(int(ew_kt)) + 1)
    setbits(me, 25, 1, 1 if ns_kt < 0 else 0)
    setbits(me, 26, 10, abs(int(ns_kt)) + 1)
    setbits(me, 37, 1, 1 if vr_fpm < 0 else 0)
    setbits(me, 38, 9, abs(int(vr_fpm)) // 64 + 1)
    return squitter(aa, bytes(me), df)


def destination(lat, lon, bearing, km):
    R = 6371.0
    p1, l1, th, dr = math.radians(lat), math.radians(lon), math.radians(bearing), km / R
    p2 = math.asin(max(-1, min(1, math.sin(p1) * math.cos(dr) + math.cos(p1) * math.sin(dr) * math.cos(th))))
    l2 = l1 + math.atan2(math.sin(th) * math.sin(dr) * math.cos(p1), math.cos(dr) - math.sin(p1) * math.sin(p2))
    lo = math.degrees(l2)
    while lo >= 180:
        lo -= 360
    while lo < -180:
        lo += 360
    return math.degrees(p2), lo


def helper(obj):
    exe = os.environ.get("VCHECK_BIN", os.path.join(VERIF, "work/target/release/vcheck"))
    r = subprocess.run([exe, "helper"], input=json.dumps(obj).encode(), stdout=subprocess.PIPE, check=True)
    return json.loads(r.stdout)


def line(frame: bytes) -> bytes:
    return b"*" + frame.hex().encode() + b";\n"
