"""Shared runner for the Hypothesis-based app checks: parallel workers, findings protocol, evidence."""
import os, sys, json, time, subprocess, hashlib, traceback

VERIF = os.environ.get("VERIF_DIR", "/verif")


def load_known(pid):
    out = []
    p = os.path.join(VERIF, "known_findings.jsonl")
    if os.path.exists(p):
        for l in open(p):
            l = l.strip()
            if not l or l.startswith("#"):
                continue
            try:
                v = json.loads(l)
            except Exception:
                continue
            if v.get("property") == pid:
                out.append(v)
    return out


def sig_match(pat, sig):
    return sig.startswith(pat[:-1]) if pat.endswith("*") else pat == sig


class Recorder:
    """per-worker statistics"""

    def __init__(self, pid):
        self.pid = pid
        self.known = [k for k in load_known(pid) if k.get("status") == "known"]
        self.evaluations = 0
        self.nontrivial = set()
        self.classes = {}
        self.samples = []
        self.known_hits = {}
        self.inconclusive = 0
        self.failure = None  # (sig, msg, case) of the last failing call (minimal after shrinking)
        self.counting = True

    def klass(self, c):
        if self.counting:
            self.classes[c] = self.classes.get(c, 0) + 1

    def judge(self, case_json, fails, nontrivial, classes=()):
        """called once per executed case; raises AssertionError for an unknown failure"""
        if self.counting:
            self.evaluations += 1
            for c in classes:
                self.klass(c)
            if nontrivial:
                self.nontrivial.add(hashlib.sha1(json.dumps(case_json, sort_keys=True).encode()).hexdigest())
            if len(self.samples) < 3 and nontrivial:
                self.samples.append(case_json)
        unknown = []
        for sig, msg in fails:
            k = next((k for k in self.known if sig_match(k["signature"], sig)), None)
            if k:
                if self.counting:
                    self.known_hits[k["signature"]] = self.known_hits.get(k["signature"], 0) + 1
            else:
                unknown.append((sig, msg))
        if unknown:
            self.counting = False
            self.failure = (unknown[0][0], unknown[0][1], case_json)
            raise AssertionError(unknown[0][0] + ": " + unknown[0][1])

    def dump(self, path, error=None):
        json.dump({
            "evaluations": self.evaluations, "nontrivial": sorted(self.nontrivial), "classes": self.classes, "samples": self.samples,
            "known_hits": self.known_hits, "inconclusive": self.inconclusive,
            "failure": None if not self.failure else {"sig": self.failure[0], "msg": self.failure[1], "case": self.failure[2]},
            "error": error,
        }, open(path, "w"))


def run_regress(pid, run_one, extra_cases=()):
    """replay tier: saved cases of regress/<pid>.jsonl plus `extra_cases` (a finite sub-domain that is
    enumerated completely), one attempt each; returns ({sig: failure}, n)"""
    path = os.path.join(VERIF, "regress", f"{pid}.jsonl")
    fails, n = {}, 0
    if run_one is None:
        return fails, n
    cases = []
    if os.path.exists(path):
        for l in open(path):
            l = l.strip()
            if l and not l.startswith("#"):
                cases.append(json.loads(l))
    todo = [("[saved regression case] ", c) for c in cases] + [("", c) for c in extra_cases]

    def one(pc):
        try:
            return list(run_one(pc[1]))
        except Exception:
            return []  # inconclusive session: the generated cases decide

    # the sessions are independent child processes: play them 12 at a time, report in list order
    from concurrent.futures import ThreadPoolExecutor
    with ThreadPoolExecutor(max_workers=12) as ex:
        results = list(ex.map(one, todo))
    for (pref, case), res in zip(todo, results):
        n += 1
        for sig, msg in res:
            fails.setdefault(sig, {"sig": sig, "msg": pref + msg, "case": {k: v for k, v in case.items() if k not in ("property", "signature", "message")}})
    return fails, n


def run_parallel(pid, script, tier, nworkers, examples_per_worker, level, rule, assumptions, seed, extra_env=None, exhaustive=False, regress_one=None, extra_cases=()):
    """spawn workers, aggregate, write evidence, print protocol lines, return exit code"""
    t0 = time.time()
    second = bool(os.environ.get("VERIF_SECOND_BUILD"))
    if second:
        # second pass against the dev-profile binaries: the saved cases and the enumerated
        # sub-domains only; the result is recorded inside the evidence of the first pass
        nworkers = 0
    pre_fails, n_regress = run_regress(pid, regress_one, extra_cases)
    # (one directory per run: two runs of the same check may be under way at once)
    work = os.path.join(VERIF, "work", "py", pid, str(os.getpid()))
    os.makedirs(work, exist_ok=True)
    os.makedirs(os.path.join(VERIF, "work", "logs"), exist_ok=True)
    procs = []
    for w in range(nworkers):
        out = os.path.join(work, f"worker{w}.json")
        if os.path.exists(out):
            os.remove(out)
        env = dict(os.environ)
        env.update(extra_env or {})
        p = subprocess.Popen([sys.executable, script, "--worker", str(w), "--n", str(examples_per_worker), "--seed", str(seed), "--tier", tier, "--out", out], env=env, stdout=subprocess.PIPE, stderr=subprocess.STDOUT)
        procs.append((p, out))
    agg = {"evaluations": n_regress, "nontrivial": set(), "classes": {}, "samples": [], "known_hits": {}, "inconclusive": 0}
    failures = dict(pre_fails)
    errors = []
    for p, out in procs:
        log, _ = p.communicate()
        if not os.path.exists(out):
            errors.append(f"worker produced no result: {log.decode(errors='replace')[-2000:]}")
            continue
        r = json.load(open(out))
        agg["evaluations"] += r["evaluations"]
        agg["nontrivial"].update(r["nontrivial"])
        for k, v in r["classes"].items():
            agg["classes"][k] = agg["classes"].get(k, 0) + v
        for k, v in r["known_hits"].items():
            agg["known_hits"][k] = agg["known_hits"].get(k, 0) + v
        agg["samples"] += r["samples"][:2]
        agg["inconclusive"] += r["inconclusive"]
        if r.get("failure"):
            f = r["failure"]
            failures.setdefault(f["sig"], f)
        if r.get("error"):
            errors.append(r["error"])
    import shutil
    shutil.rmtree(work, ignore_errors=True)
    known = [k for k in load_known(pid) if k.get("status") == "known"]
    for k in known:
        print(f"KNOWN-FINDING: property={pid} {k.get('what', k.get('text', ''))} [signature={k['signature']} hits_this_run={agg['known_hits'].get(k['signature'], 0)}]")
    replays = []
    for sig, f in failures.items():
        d = os.path.join(VERIF, "replays", pid)
        os.makedirs(d, exist_ok=True)
        name = "".join(c if c.isalnum() or c in "-." else "_" for c in sig)
        path = os.path.join(d, f"{name}-{hashlib.sha1(json.dumps(f['case'], sort_keys=True).encode()).hexdigest()[:8]}.json")
        body = dict(f["case"]) if isinstance(f["case"], dict) else {"case": f["case"]}
        body.update({"property": pid, "signature": sig, "message": f["msg"]})
        json.dump(body, open(path, "w"), indent=1)
        print(f"VIOLATION property={pid} replay={path}")
        print(f"  signature={sig} :: {f['msg'][:1500]}")
        replays.append(path)
    ev = {
        "property_id": pid, "tier": tier, "seed": seed, "level": level,
        "coverage": {
            "evaluations": agg["evaluations"], "distinct_nontrivial": len(agg["nontrivial"]), "rule": rule,
            "samples": agg["samples"][:6], "exhaustive": exhaustive, "class_histogram": agg["classes"],
            "known_finding_hits": agg["known_hits"], "saved_regression_cases_replayed": n_regress, "inconclusive_cases": agg["inconclusive"], "worker_errors": errors[:3],
            "violation_replays": replays,
        },
        "assumptions": assumptions, "wall_s": time.time() - t0, "violations": len(failures),
    }
    os.makedirs(os.path.join(VERIF, "evidence"), exist_ok=True)
    evpath = os.path.join(VERIF, "evidence", f"{pid}.json")
    if second:
        if failures:
            print("  (reported by the second pass: radar/1090 built in the dev profile, debug assertions and overflow checks on; --replay tries both builds)")
        try:
            base = json.load(open(evpath))
        except Exception:
            base = ev
        base["coverage"]["dev_profile_pass"] = {
            "build": "radar and 1090 as a plain `cargo build` leaves them (dev profile)",
            "cases_replayed": n_regress, "violations": len(failures), "violation_replays": replays, "wall_s": time.time() - t0,
        }
        base["wall_s"] = base.get("wall_s", 0) + time.time() - t0
        base["violations"] = base.get("violations", 0) + len(failures)
        json.dump(base, open(evpath, "w"), indent=1)
        print(f"{pid} {tier} (second pass, dev-profile binaries): cases={n_regress} violations={len(failures)} wall={time.time() - t0:.1f}s")
        return 1 if failures else 0
    json.dump(ev, open(evpath, "w"), indent=1)
    print(f"{pid} {tier}: evaluations={agg['evaluations']} distinct_nontrivial={len(agg['nontrivial'])} inconclusive={agg['inconclusive']} violations={len(failures)} wall={time.time() - t0:.1f}s")
    if failures:
        return 1
    if errors:
        for e in errors[:3]:
            print("INCONCLUSIVE: worker error:", e[:1500])
        return 2
    if agg["evaluations"] == 0 or len(agg["nontrivial"]) < 2:
        print("INCONCLUSIVE: vacuity guard: too few non-trivial cases")
        return 2
    return 0
