"""Process under a pty: size control, key/mouse input, output capture, termios snapshots."""
import os, pty, fcntl, termios, struct, signal, select, time, subprocess, errno


def set_winsize(fd, rows, cols):
    fcntl.ioctl(fd, termios.TIOCSWINSZ, struct.pack("HHHH", rows, cols, 0, 0))


class PtyProc:
    def __init__(self, argv, rows=50, cols=160, env=None, cwd=None):
        self.master, self.slave = pty.openpty()
        set_winsize(self.master, rows, cols)
        self.rows, self.cols = rows, cols
        self.termios_before = termios.tcgetattr(self.slave)
        e = dict(os.environ)
        e.update({"TERM": "xterm-256color", "LINES": str(rows), "COLUMNS": str(cols)})
        e.pop("LINES", None)
        e.pop("COLUMNS", None)
        if env:
            e.update(env)
        self.proc = subprocess.Popen(
            argv, stdin=self.slave, stdout=self.slave, stderr=subprocess.PIPE, env=e, cwd=cwd,
            preexec_fn=self._child_setup, close_fds=True)
        fl = fcntl.fcntl(self.master, fcntl.F_GETFL)
        fcntl.fcntl(self.master, fcntl.F_SETFL, fl | os.O_NONBLOCK)
        fl = fcntl.fcntl(self.proc.stderr, fcntl.F_GETFL)
        fcntl.fcntl(self.proc.stderr, fcntl.F_SETFL, fl | os.O_NONBLOCK)
        self.out = bytearray()
        self.err = bytearray()

    def _child_setup(self):
        os.setsid()
        fcntl.ioctl(self.slave, termios.TIOCSCTTY, 0)

    def pump(self, timeout=0.0):
        """read whatever is available; returns number of new bytes"""
        n = 0
        end = time.time() + timeout
        while True:
            r, _, _ = select.select([self.master, self.proc.stderr], [], [], max(0.0, min(0.05, end - time.time())))
            got = False
            for f in r:
                try:
                    if f == self.master:
                        d = os.read(self.master, 65536)
                        if d:
                            self.out += d
                            n += len(d)
                            got = True
                    else:
                        d = os.read(self.proc.stderr.fileno(), 65536)
                        if d:
                            self.err += d
                            got = True
                except OSError as ex:
                    if ex.errno not in (errno.EAGAIN, errno.EIO):
                        raise
            if not got and time.time() >= end:
                break
        return n

    def write(self, data: bytes):
        os.write(self.master, data)

    def resize(self, rows, cols):
        self.rows, self.cols = rows, cols
        set_winsize(self.master, rows, cols)
        try:
            os.killpg(os.getpgid(self.proc.pid), signal.SIGWINCH)
        except ProcessLookupError:
            pass

    def alive(self):
        return self.proc.poll() is None

    def wait_exit(self, timeout):
        end = time.time() + timeout
        while time.time() < end:
            self.pump(0.02)
            if self.proc.poll() is not None:
                self.pump(0.05)
                return self.proc.returncode
        return None

    def termios_now(self):
        return termios.tcgetattr(self.slave)

    def kill(self):
        try:
            os.killpg(os.getpgid(self.proc.pid), signal.SIGKILL)
        except Exception:
            try:
                self.proc.kill()
            except Exception:
                pass
        try:
            self.proc.wait(timeout=2)
        except Exception:
            pass

    def close(self):
        self.kill()
        for fd in (self.master, self.slave):
            try:
                os.close(fd)
            except OSError:
                pass
        try:
            self.proc.stderr.close()
        except Exception:
            pass


# key encodings (xterm)
KEYS = {
    "F1": b"\x1bOP", "F2": b"\x1bOQ", "F3": b"\x1bOR", "F4": b"\x1bOS", "F5": b"\x1b[15~",
    "Tab": b"\t", "Up": b"\x1b[A", "Down": b"\x1b[B", "Right": b"\x1b[C", "Left": b"\x1b[D",
    "Enter": b"\r", "Esc": b"\x1b", "Backspace": b"\x7f", "CtrlC": b"\x03",
    "F6": b"\x1b[17~", "F7": b"\x1b[18~", "F8": b"\x1b[19~", "F9": b"\x1b[20~", "F10": b"\x1b[21~", "F11": b"\x1b[23~", "F12": b"\x1b[24~",
    "Home": b"\x1b[H", "End": b"\x1b[F", "PageUp": b"\x1b[5~", "PageDown": b"\x1b[6~", "Insert": b"\x1b[2~", "Delete": b"\x1b[3~",
    "BackTab": b"\x1b[Z", "CtrlA": b"\x01", "CtrlL": b"\x0c", "CtrlZ_": b"\x1a", "AltX": b"\x1bx", "ShiftUp": b"\x1b[1;2A", "CtrlRight": b"\x1b[1;5C",
    "Nul": b"\x00", "Utf8": "é".encode(), "Wide": "日".encode(),
}


def key(k):
    if k in KEYS:
        return KEYS[k]
    return k.encode()


def mouse_sgr(kind, col, row):
    """SGR (1006) mouse report; col,row 0-based. kind: down/up/drag/scrollup/scrolldown/rightdown/middledown/move"""
    cb = {"down": 0, "up": 0, "drag": 32, "scrollup": 64, "scrolldown": 65, "rightdown": 2, "middledown": 1, "move": 35}[kind]
    final = "m" if kind == "up" else "M"
    return f"\x1b[<{cb};{col + 1};{row + 1}{final}".encode()
