"""Sessions with the two clients as black boxes: pty + TCP + log file."""
import os, time, glob, re, subprocess, shutil, fcntl, tempfile
from ptyproc import PtyProc, key, mouse_sgr
from vt import Screen
from feed import FeedServer
import frames as F

VERIF = os.environ.get("VERIF_DIR", "/verif")
APPS = os.environ.get("VERIF_APPS_DIR", os.path.join(VERIF, "work/target-apps/release"))
RADAR = os.path.join(APPS, "radar")
DUMP1090 = os.path.join(APPS, "1090")

ANSI_RE = re.compile(r"\x1b\[[0-9;]*m")


class Inconclusive(Exception):
    pass


class RadarSession:
    def __init__(self, tag, rows=50, cols=160, lat=52.0, lon=4.0, opts=(), connect=True, filter_time=None):
        self.tag = tag
        self.logdir = tempfile.mkdtemp(prefix=f"radar-{tag}-", dir=os.path.join(VERIF, "work", "logs"))
        self.srv = FeedServer()
        argv = [RADAR, "--port", str(self.srv.port), f"--lat={lat}", f"--long={lon}", "--log-folder", self.logdir]
        if filter_time is not None:
            argv += ["--filter-time", str(filter_time)]
        argv += list(opts)
        self.argv = argv
        self.rows, self.cols = rows, cols
        if not connect:
            # nothing listens on the port: radar stays in its "waiting for connection" screen
            self.srv.sock.close()
        self.p = PtyProc(argv, rows=rows, cols=cols, env={"RUST_LOG": "debug"})
        self.size_mark = 0
        self.connected = False
        if connect:
            if not self.srv.accept(10.0):
                alive = self.p.alive()
                self.p.pump(0.2)
                if alive:
                    raise Inconclusive("radar did not connect within 10 s")
            else:
                self.connected = True

    # ---- observation
    def fresh_screen(self):
        """re-parse all output from scratch at the current size (robust against partial sequences)"""
        self.p.pump(0.0)
        s = Screen(self.rows, self.cols)
        s.feed(bytes(self.p.out[self.size_mark:]))
        return s

    def log_text(self):
        t = ""
        for f in sorted(glob.glob(os.path.join(self.logdir, "radar.log*"))):
            try:
                t += open(f, errors="replace").read()
            except OSError:
                pass
        return ANSI_RE.sub("", t)

    def log_bytes_lines(self):
        # (the log shows the hex text as it came; digits are compared case-insensitively)
        return [x.lower() if re.fullmatch(r"[0-9A-Fa-f]+", x) else x for x in re.findall(r"bytes: (.*)$", self.log_text(), flags=re.M)]

    def stderr(self):
        self.p.pump(0.0)
        return bytes(self.p.err).decode(errors="replace")

    def alive(self):
        return self.p.alive()

    def panicked(self):
        """a panic of the main thread (a helper thread that dies - the gpsd reader after a refused
        handshake - leaves radar running; whether radar then stays alive and quits cleanly is what
        the caller checks)"""
        t = self.stderr() + self.p.out.decode(errors="replace")
        return "thread 'main'" in t and "panicked" in t

    # ---- actions
    def send(self, data: bytes):
        self.srv.send(data)

    def wait_for(self, pred, timeout=8.0, poll=0.05):
        end = time.time() + timeout
        while time.time() < end:
            self.p.pump(poll)
            if pred():
                return True
            if not self.p.alive():
                return pred()
        return pred()

    def wait_log_contains(self, hexline, timeout=8.0):
        return self.wait_for(lambda: hexline in self.log_bytes_lines(), timeout)

    def press(self, k):
        self.p.write(key(k))

    def resize(self, rows, cols):
        self.rows, self.cols = rows, cols
        self.p.pump(0.0)
        self.size_mark = len(self.p.out)
        self.p.resize(rows, cols)

    def quit(self, how="q", timeout=5.0):
        """request quit; returns dict of observations"""
        self.p.pump(0.05)
        mark = len(self.p.out)
        # a quit key alone, or followed by further keys in the same write (type-ahead, a paste)
        keys = {"q": b"q", "ctrl-c": b"\x03", "q+enter": b"q\r", "ctrl-c+down": b"\x03\x1b[B"}
        self.p.write(keys.get(how, b"q"))
        rc = self.p.wait_exit(timeout)
        tail = bytes(self.p.out[mark:]).decode(errors="replace")
        allout = bytes(self.p.out).decode(errors="replace")
        return {"rc": rc, "tail": tail, "termios_restored": self.p.termios_now() == self.p.termios_before, "all": allout}

    def close(self):
        try:
            self.p.close()
        finally:
            self.srv.close()
            shutil.rmtree(self.logdir, ignore_errors=True)


def terminal_restored(allout: str):
    """mouse reporting off and cursor visible at the end of the output; returns list of problems"""
    problems = []
    for mode in ("1000", "1002", "1003", "1006"):
        on = allout.rfind(f"\x1b[?{mode}h")
        off = allout.rfind(f"\x1b[?{mode}l")
        if on >= 0 and off < on:
            problems.append(f"mouse mode {mode} left on")
    hide = allout.rfind("\x1b[?25l")
    show = allout.rfind("\x1b[?25h")
    if hide >= 0 and show < hide:
        problems.append("cursor left hidden")
    return problems


class Dump1090Session:
    def __init__(self, tag, opts=()):
        self.srv = FeedServer()
        self.proc = subprocess.Popen([DUMP1090, "--host", "127.0.0.1", "--port", str(self.srv.port)] + list(opts), stdout=subprocess.PIPE, stderr=subprocess.PIPE, stdin=subprocess.DEVNULL)
        for f in (self.proc.stdout, self.proc.stderr):
            fl = fcntl.fcntl(f, fcntl.F_GETFL)
            fcntl.fcntl(f, fcntl.F_SETFL, fl | os.O_NONBLOCK)
        self.out = bytearray()
        self.err = bytearray()
        if not self.srv.accept(10.0):
            raise Inconclusive("1090 did not connect within 10 s")

    def pump(self, t=0.0):
        end = time.time() + t
        while True:
            got = False
            for f, buf in ((self.proc.stdout, self.out), (self.proc.stderr, self.err)):
                try:
                    d = os.read(f.fileno(), 65536)
                    if d:
                        buf += d
                        got = True
                except (BlockingIOError, OSError):
                    pass
            if not got:
                if time.time() >= end:
                    break
                time.sleep(0.01)

    def lines(self):
        return self.out.decode(errors="replace").split("\n")

    def send(self, d):
        self.srv.send(d)

    def alive(self):
        return self.proc.poll() is None

    def wait_for(self, pred, timeout=8.0):
        end = time.time() + timeout
        while time.time() < end:
            self.pump(0.03)
            if pred():
                return True
            if not self.alive():
                self.pump(0.05)
                return pred()
        return pred()

    def close(self):
        try:
            self.proc.kill()
            self.proc.wait(timeout=2)
        except Exception:
            pass
        for f in (self.proc.stdout, self.proc.stderr):
            try:
                f.close()
            except Exception:
                pass
        self.srv.close()
