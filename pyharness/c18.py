#!/usr/bin/env python3
"""C18: the Airplanes / Stats tabs show the tracker's data; the map places aircraft truthfully;
view controls change only the view."""
import re, sys, os, json, time, argparse, math

sys.path.insert(0, os.path.dirname(os.path.abspath(__file__)))
import frames as F
from appdriver import RadarSession, Inconclusive
from ptyproc import key, mouse_sgr
import pbt

PID = "C18"
RXS = [(52.0, 4.0), (-33.9, 151.2), (70.0, -20.0), (40.0, -100.0), (1.0, 103.0), (10.0, 179.7), (51.5, 0.3), (-0.2, -0.3), (-45.0, -179.8),
       (85.5, -40.0), (-86.0, 60.0)]  # appended: beyond the web-mercator latitude limit (indices of saved cases stay valid)
ADDRS = [0x4840D6, 0xABC001, 0x3C6586, 0x000A0B, 0xFFFFFE, 0x7C0017, 0x06A0B1, 0x800001]
ROWS, COLS = 50, 160
WIDTHS = [6, 9, 7, 7, 7, 8, 6, 5, 8, 6]
BLUE = 4


def merc(lat):
    return math.log(math.tan(math.pi / 4 + math.radians(lat) / 2))


def scenario_frames(case):
    """list of (aircraft index, [frames]) in feed order; positions relative to the receiver"""
    rx = RXS[case["rx"] % len(RXS)]
    out = []
    for i, ac in enumerate(case["aircraft"]):
        a = ADDRS[i % len(ADDRS)]
        lat, lon = F.destination(rx[0], rx[1], ac["bearing"], ac["km"])
        fs = []
        df = 18 if ac.get("df18") else 17  # TIS-B / ADS-R / non-transponder carrier
        if ac.get("first_other"):
            # the aircraft is first heard with a squitter that is neither identification, position
            # nor velocity: operation status (31), target state (29), aircraft status (28)
            me = bytes.fromhex(["f8210002004ab8", "ea1b785e8f3c08", "e1108500000000"][(ac["first_other"] - 1) % 3])
            fs.append(F.squitter(a, me, df=df))
        if ac.get("callsign"):
            fs.append(F.ident(a, ac["callsign"], df=df))
        if ac.get("position", True):
            alt = 1000 + 25 * ac.get("alt", 100)
            # a climbing / descending aircraft: the odd report carries another altitude
            fs.append(F.position(a, lat, lon, 0, alt_ft=alt, df=df))
            fs.append(F.position(a, lat, lon, 1, alt_ft=max(alt + 25 * ac.get("climb", 0), -975), df=df))
        if ac.get("velocity"):
            fs.append(F.velocity(a, ac["velocity"][0], ac["velocity"][1], 64 * (i % 5), df=df))
        for _ in range(ac.get("extra", 0)):
            fs.append(F.ident(a, ac.get("callsign") or "X", df=df))
        out.append((i, fs, (lat, lon)))
    return rx, out


def table_rows(scr):
    """parse the Airplanes tab: returns (title_n, block_n, list of row cells) or None"""
    hdr = None
    for r in range(scr.rows):
        ln = scr.line(r)
        i = ln.find("ICAO ")
        if i >= 0 and "Call sign" in ln:
            hdr = (r, i)
            break
    if hdr is None:
        return None
    r0, x0 = hdr
    rows = []
    r = r0 + 2
    while r < scr.rows - 1:
        ln = scr.line(r)
        cells = []
        x = x0
        for w in WIDTHS:
            cells.append(ln[x:x + w])
            x += w + 1
        if not cells[0].strip():
            break
        rows.append(cells)
        r += 1
    import re
    text = scr.text()
    t = re.findall(r"Airplanes\((\d+)\)", text)
    return [int(x) for x in t], rows


def stats_values(scr):
    out = {}
    for r in range(scr.rows):
        ln = scr.line(r)
        if "Most Airplanes" in ln:
            out["most"] = ln.split()[-2] if ln.rstrip().endswith("│") else ln.split()[-1]
        if "Total Airplanes" in ln:
            out["total"] = ln.split()[-2] if ln.rstrip().endswith("│") else ln.split()[-1]
    return out


def map_info(scr):
    """blue marker cells, and the axes crossing"""
    blue = [(r, c) for r in range(scr.rows) for c in range(scr.cols) if scr.cells[r][c][1] == BLUE and scr.cells[r][c][0] != " "]
    # axes: the row with most horizontal-line braille cells, the column with most vertical ones
    best_r, best_c = None, None
    rc = {}
    cc = {}
    for r in range(scr.rows):
        for c in range(scr.cols):
            ch = scr.cells[r][c][0]
            if 0x2800 < ord(ch) <= 0x28FF and scr.cells[r][c][1] != BLUE:
                rc[r] = rc.get(r, 0) + 1
                cc[c] = cc.get(c, 0) + 1
    if rc:
        best_r = max(rc, key=lambda k: rc[k])
        best_c = max(cc, key=lambda k: cc[k])
    # canvas inner area: the block titled Map
    top = next((r for r in range(scr.rows) if "┌Map" in scr.line(r)), None)
    bottom = None
    left = right = None
    if top is not None:
        ln = scr.line(top)
        left = ln.find("┌")
        right = ln.rfind("┐")
        for r in range(scr.rows - 1, top, -1):
            if scr.line(r)[left:left + 1] == "└":
                bottom = r
                break
    return {"blue": blue, "cross": (best_r, best_c), "box": (top, bottom, left, right)}


def stable_map(s, timeout=4.0):
    """the map once two looks 0.15 s apart agree (a redraw may lag behind the processed frames)"""
    end = time.time() + timeout
    a = map_info(s.fresh_screen())
    while True:
        s.p.pump(0.15)
        b = map_info(s.fresh_screen())
        if sorted(a["blue"]) == sorted(b["blue"]) and a["box"] == b["box"] or time.time() > end:
            return b
        a = b


def log_timeline(s):
    """(unix time, frame hex) of every line radar processed, from its own debug log"""
    import datetime
    out = []
    for m in re.finditer(r"^(\d{4}-\d\d-\d\dT[\d:.]+)Z\s+DEBUG radar: \S+ bytes: ([0-9a-fA-F]+)\s*$", s.log_text(), flags=re.M):
        try:
            t = datetime.datetime.fromisoformat(m.group(1)[:26]).replace(tzinfo=datetime.timezone.utc).timestamp()
        except ValueError:
            continue
        out.append((t, m.group(2).lower()))
    return out


def run_expiry_case(case):
    """Stats / table bookkeeping across expiry: aircraft time out (--filter-time 2) and come back.
    The schedule below only steers what happens; the expected totals are computed from the times
    at which radar itself logged each frame as processed, with a band of one second after the
    threshold in which either outcome is accepted - the verdict does not depend on how fast this
    harness or the machine is."""
    fails = []
    T, SLACK = 2.0, 1.0
    rx = RXS[case["rx"] % len(RXS)]
    n1 = 2 + case["n1"] % 4
    keep = sorted({k % n1 for k in case["keep"]}) or [0]
    n2 = case["n2"] % 4
    back = sorted({b % n1 for b in case["back"]} - set(keep))
    s = RadarSession("c18x", rows=ROWS, cols=COLS, lat=rx[0], lon=rx[1], opts=["--disable-heading"], filter_time=2)
    try:
        def hear(i, tag):
            a = ADDRS[i % len(ADDRS)]
            f = F.ident(a, f"X{i}{tag}"[:8])
            s.send(F.line(f))
            return f

        last = None
        for i in range(n1):
            last = hear(i, "A")
        if not s.wait_log_contains(last.hex(), 8.0):
            raise Inconclusive("frames not processed")
        # 4.6 s during which only the `keep` aircraft transmit: the others expire (threshold 2 s)
        t0 = time.time()
        r = 0
        while time.time() - t0 < 4.6:
            for i in keep:
                last = hear(i, f"K{r}")
            r += 1
            time.sleep(0.5)
        if not s.wait_log_contains(last.hex(), 8.0):
            raise Inconclusive("frames not processed")
        for j in range(n2):
            last = hear(n1 + j, "N")
        for i in back:
            last = hear(i, "B")
        if not s.wait_log_contains(last.hex(), 8.0):
            raise Inconclusive("frames not processed")
        time.sleep(0.2)

        # ---- the model, on radar's own time axis
        seen, cnt = {}, {}
        total = 0
        most_lo = most_hi = 0
        for ts, hx in log_timeline(s):
            a = hx[2:8]
            for b in [b for b in seen if ts - seen[b] > T + SLACK]:
                del seen[b], cnt[b]  # silent for longer than the band: expired
            if a in seen:
                if ts - seen[a] >= T - 0.05:
                    raise Inconclusive("a gap inside the tolerance band of the expiry threshold")
                cnt[a] += 1
            else:
                total += 1
                cnt[a] = 1
            seen[a] = ts
            sure = sum(1 for b in seen if ts - seen[b] < T - 0.05)
            maybe = sum(1 for b in seen if ts - seen[b] >= T - 0.05)
            most_lo, most_hi = max(most_lo, sure), max(most_hi, sure + maybe)

        s.press("F4")
        if not s.wait_for(lambda: "total" in stats_values(s.fresh_screen()), 4.0):
            raise Inconclusive("Stats tab did not appear")
        sv = {}
        for attempt in range(12):
            s.p.pump(0.05 if attempt == 0 else 0.4)
            sv = stats_values(s.fresh_screen())
            if sv.get("total") == str(total):
                break
        if sv.get("total") != str(total):
            fails.append(("C18/stats/total/expiry", f"Total Airplanes shows {sv.get('total')}; by radar's own log aircraft were newly added {total} times ({n1} first, some expired, {n2} new, {len(back)} heard again)"))
        if not (sv.get("most", "").isdigit() and most_lo <= int(sv["most"]) <= most_hi):
            fails.append(("C18/stats/most/expiry", f"Most Airplanes shows {sv.get('most')}; the largest simultaneous count was between {most_lo} and {most_hi}"))
        s.press("F3")
        if not s.wait_for(lambda: table_rows(s.fresh_screen()) is not None, 4.0):
            raise Inconclusive("Airplanes tab did not appear")
        probs = []
        for attempt in range(12):
            s.p.pump(0.15 if attempt == 0 else 0.4)
            t_look = time.time()
            tr = table_rows(s.fresh_screen())
            if tr is None:
                continue
            titles, rows = tr
            got = {r[0].strip(): r[9].strip() for r in rows}
            must = {k: str(v) for k, v in cnt.items() if t_look - seen[k] < T - 0.4}
            may = {k: str(v) for k, v in cnt.items() if t_look - seen[k] <= T + SLACK + 0.4}
            probs = []
            for k, v in must.items():
                if got.get(k) != v:
                    probs.append(("C18/table/rows/expiry", f"Airplanes tab shows {got} (address: messages); {k} was heard {v} times since it was (re)added and less than {T} s ago"))
            for k, v in got.items():
                if may.get(k) != v:
                    probs.append(("C18/table/rows/expiry", f"Airplanes tab shows {k} with {v} messages; the tracker can only hold {may}"))
            if any(t != len(got) for t in titles):
                probs.append(("C18/table/title/expiry", f"titles show Airplanes{titles}, the table has {len(got)} rows"))
            if not probs:
                break
        fails.extend(probs[:2])
        # ---- silence: no traffic, no key, no mouse for longer than the threshold plus the band.
        # Everybody times out, and the screen has to say so by itself.
        if not fails and s.alive():
            quiet_from = time.time()
            while time.time() - quiet_from < T + SLACK + 0.7:
                s.p.pump(0.2)
            left = None
            for attempt in range(12):
                s.p.pump(0.1 if attempt == 0 else 0.4)
                tr = table_rows(s.fresh_screen())
                if tr is None:
                    continue
                titles, rows = tr
                left = ({r[0].strip() for r in rows}, titles)
                if not rows and all(t == 0 for t in titles):
                    left = None
                    break
            if left is not None:
                fails.append(("C18/table/stale_after_expiry", f"{T + SLACK + 0.7:.1f} s after the last frame (threshold {T} s) and without any operator action the Airplanes tab still shows {sorted(left[0])}, titles Airplanes{left[1]}"))
        if not s.alive():
            fails.append(("C18/terminated", f"radar terminated: {s.stderr()[-300:]}"))
    finally:
        s.close()
    return fails


def run_long_lived_case(case):
    """one aircraft heard `n` times, a second one a few times: the rows show both counts in full"""
    fails = []
    n = int(case["long_lived"])
    rx = RXS[case.get("rx", 0) % len(RXS)]
    s = RadarSession("c18l", rows=ROWS, cols=COLS, lat=rx[0], lon=rx[1], opts=["--disable-heading"])
    try:
        a, b = ADDRS[0], ADDRS[1]
        last = None
        for k in range(0, n, 500):
            chunk = b""
            for i in range(k, min(k + 500, n)):
                last = F.ident(a, f"L{i % 100000:05d}")
                chunk += F.line(last)
            s.send(chunk)
            if not s.wait_log_contains(last.hex(), 120.0):
                if not s.alive():
                    fails.append(("C18/terminated", f"radar terminated: {s.stderr()[-300:]}"))
                    return fails
                raise Inconclusive("frames not processed within 120 s")
        for i in range(7):
            last = F.ident(b, f"S{i}")
            s.send(F.line(last))
        if not s.wait_log_contains(last.hex(), 30.0):
            raise Inconclusive("frames not processed")
        s.press("F3")
        if not s.wait_for(lambda: table_rows(s.fresh_screen()) is not None, 4.0):
            raise Inconclusive("Airplanes tab did not appear")
        want = {f"{a:06x}": str(n), f"{b:06x}": "7"}
        got = {}
        for attempt in range(12):
            s.p.pump(0.15 if attempt == 0 else 0.4)
            tr = table_rows(s.fresh_screen())
            if tr is None:
                continue
            got = {r[0].strip(): r[9].strip() for r in tr[1]}
            if got == want:
                break
        if got != want:
            fails.append(("C18/table/msgs/long_lived", f"Airplanes tab shows {got} (address: messages), the tracker holds {want}"))
    finally:
        s.close()
    return fails


def run_case(case):
    if case.get("long_lived"):
        return run_long_lived_case(case)
    if case.get("expiry_case"):
        return run_expiry_case(case)
    fails = []
    rx, feed = scenario_frames(case)
    opts = ["--disable-heading", "--disable-track"]
    labels = case.get("labels", False)
    if not labels:
        opts.append("--disable-icao")
    if case.get("scale"):
        opts.append(f"--scale={case['scale']}")
    gps = case.get("gpsd")
    gpsd = None
    start = rx
    if gps:
        # the receiver position comes from a GPS: radar starts with another --lat/--long and is
        # told the real position (via one intermediate fix) by a gpsd server before any traffic
        from feed import FakeGpsd
        start = F.destination(rx[0], rx[1], gps["bearing"], gps["km"])
        gpsd = FakeGpsd()
        gpsd.start()
        opts += ["--gpsd", "--gpsd-ip", gpsd.ip]
    s = RadarSession("c18", rows=ROWS, cols=COLS, lat=start[0], lon=start[1], opts=opts)
    try:
        if gpsd:
            if not gpsd.ready.wait(10.0):
                raise Inconclusive("radar did not complete the gpsd handshake")
            mid = F.destination(rx[0], rx[1], gps["bearing"], gps["km"] / 2.0)
            gpsd.report(mid[0], mid[1])
            time.sleep(0.3)
            gpsd.report(rx[0], rx[1])
            if not s.wait_for(lambda: s.log_text().count("[gpsd] lat:") >= 2, 8.0):
                raise Inconclusive("the gpsd fixes were not received")
            # what follows a fix on a real receiver is not another fix
            gpsd.chatter()
            time.sleep(0.5)
        all_frames = []
        markers = {}
        seen_blue = set()
        # ---- feed aircraft one at a time, watching the map
        for (i, fs, pos) in feed:
            for f in fs:
                s.send(F.line(f))
            all_frames += [f.hex() for f in fs]
            if fs and not s.wait_log_contains(fs[-1].hex(), 8.0):
                if not s.alive():
                    fails.append(("C18/terminated", f"radar terminated: {s.stderr()[-300:]}"))
                    return fails
                raise Inconclusive("frames not processed within 8 s")
        exp = F.helper({"cmd": "trackdump", "frames": all_frames, "rx": list(rx), "range": 500.0})
        recs = exp["dump"]["records"]
        keys = sorted(recs)
        mi0 = stable_map(s)

        # ---- Airplanes tab
        def check_table(tag):
            s.press("F3")
            ok = s.wait_for(lambda: table_rows(s.fresh_screen()) is not None, 4.0)
            if not ok:
                raise Inconclusive("Airplanes tab did not appear")

            def look():
                """one look at the screen: (problems, rows)"""
                out = []
                tr = table_rows(s.fresh_screen())
                if tr is None:
                    return [(f"C18/table/title/{tag}", "the Airplanes tab is not shown")], None
                titles, rows = tr
                if any(t != len(keys) for t in titles) or not titles:
                    out.append((f"C18/table/title/{tag}", f"tab/block titles show Airplanes{titles}, the tracker holds {len(keys)}"))
                if [r[0].strip() for r in rows] != keys:
                    out.append((f"C18/table/rows/{tag}", f"rows {[r[0].strip() for r in rows]}, tracked addresses {keys}"))
                    return out, rows
                for r, k in zip(rows, keys):
                    rec = recs[k]
                    d = rec["details"]
                    want = {
                        "callsign": (rec["callsign"] or "")[:9],
                        "lat": f"{d['pos'][0]:.3f}"[:7] if d else "",
                        "lon": f"{d['pos'][1]:.3f}"[:7] if d else "",
                        "altitude": str(d["alt"])[:8] if d else "",
                        "distance": f"{d['dist']:.3f}"[:8] if d else "",
                        "msgs": str(rec["num_messages"]),
                    }
                    got = {"callsign": r[1].rstrip(), "lat": r[2].strip(), "lon": r[3].strip(), "altitude": r[5].strip(), "distance": r[8].strip(), "msgs": r[9].strip()}
                    for f in want:
                        if want[f] != got[f]:
                            out.append((f"C18/table/{f}/{tag}", f"row {k}: {f} shows {got[f]!r}, the tracker has {want[f]!r}"))
                return out, rows

            # the screen must converge to the tracker's data: a difference counts only if it is
            # still there on later looks (a redraw may be under way at the first one)
            probs, rows = [], None
            for attempt in range(12):
                s.p.pump(0.1 if attempt == 0 else 0.4)
                probs, rows = look()
                if not probs:
                    break
            fails.extend(probs)
            return rows

        rows_before = check_table("before")

        def check_stats(tag):
            s.press("F4")
            ok = s.wait_for(lambda: "total" in stats_values(s.fresh_screen()), 4.0)
            if not ok:
                raise Inconclusive("Stats tab did not appear")
            sv = {}
            for attempt in range(12):
                s.p.pump(0.05 if attempt == 0 else 0.4)
                sv = stats_values(s.fresh_screen())
                if sv.get("total") == str(exp["total_added"]) and (not keys or sv.get("most") == str(exp["most"])):
                    break
            if sv.get("total") != str(exp["total_added"]):
                fails.append((f"C18/stats/total/{tag}", f"Total Airplanes shows {sv.get('total')}, aircraft were newly added {exp['total_added']} times"))
            if keys and sv.get("most") != str(exp["most"]):
                fails.append((f"C18/stats/most/{tag}", f"Most Airplanes shows {sv.get('most')}, the largest simultaneous count was {exp['most']}"))
            return sv

        stats_before = check_stats("before")

        # ---- map geometry (taken before any view control)
        s.press("F1")
        s.wait_for(lambda: map_info(s.fresh_screen())["box"][0] is not None, 4.0)
        mi = stable_map(s)
        top, bottom, left, right = mi["box"]
        cr, cc = mi["cross"]
        if top is None or cr is None:
            raise Inconclusive("map not visible")
        ctr_r = (top + bottom) / 2.0
        ctr_c = (left + right) / 2.0
        if abs(cr - ctr_r) > 1.01 or abs(cc - ctr_c) > 1.01:
            fails.append(("C18/map/centre", f"axes cross at cell ({cr},{cc}), the canvas centre is ({ctr_r},{ctr_c})"))
        placed = []
        for (i, fs, pos) in feed:
            ac = case["aircraft"][i]
            k = f"{ADDRS[i % len(ADDRS)]:06x}"
            if not recs.get(k, {}).get("details"):
                continue
            p = recs[k]["details"]["pos"]
            dlon = (p[1] - rx[1] + 180.0) % 360.0 - 180.0  # east/west of the receiver the short way round
            dmy = merc(p[0]) - merc(rx[0])
            cells = markers.get(i)
            placed.append((i, k, p, dlon, dmy, cells))
        # visible extent: |x| <= 400 units; one degree of longitude = scale*500000/360 units
        scale = case.get("scale") or 0.12
        upd = scale * 500000 / 360.0
        inner_w = (right - left - 1)
        inner_h = (bottom - top - 1)
        col_per_deg = inner_w / (800.0 / upd)
        row_per_my = inner_h / (800.0 / (scale * 500000 / (2 * math.pi)))
        calib = []
        # Which marker belongs to which aircraft is decided by place, not by the moment a cell
        # turned blue (under load a redraw can come late): the marker of an aircraft is the blue
        # cell nearest to where the canvas geometry puts it (within 3 cells); the proportionality
        # check below then measures the scale from the markers themselves.
        blue_now = list(mi["blue"])

        def nearest(pr, pc, tol=3.0):
            best = None
            for b in blue_now:
                d = max(abs(b[0] - pr), abs(b[1] - pc))
                if d <= tol and (best is None or d < best[0]):
                    best = (d, b)
            return best[1] if best else None

        # with labels on, label text can overwrite marker cells: marker geometry is checked only with labels off
        for (i, k, p, dlon, dmy, cells) in ([] if labels else placed):
            vis = abs(dlon * upd) < 385 and abs(dmy * scale * 500000 / (2 * math.pi)) < 385
            if not vis:
                continue
            pr, pc = cr - dmy * row_per_my, cc + dlon * col_per_deg
            cell = nearest(pr, pc)
            if cell is None:
                # not where it belongs: mirrored, or nowhere?
                if abs(dlon) * col_per_deg > 3.5 and nearest(pr, cc - dlon * col_per_deg) is not None:
                    fails.append(("C18/map/east_west", f"aircraft {k} is {'east' if dlon > 0 else 'west'} of the receiver but its marker is on the other side of the centre (expected near column {pc:.1f}, centre {cc})"))
                elif abs(dmy) * row_per_my > 3.5 and nearest(cr + dmy * row_per_my, pc) is not None:
                    fails.append(("C18/map/north_south", f"aircraft {k} is {'north' if dmy > 0 else 'south'} of the receiver but its marker is on the other side of the centre (expected near row {pr:.1f}, centre {cr})"))
                else:
                    fails.append(("C18/map/marker_missing", f"aircraft {k} at {p} (inside the plotted area) has no marker near row {pr:.1f}, column {pc:.1f}; markers at {sorted(blue_now)[:8]}"))
                continue
            r, c = float(cell[0]), float(cell[1])
            calib.append((k, dlon, dmy, r, c))
        # proportionality, self-calibrating: scale measured from the marker farthest from the centre
        if len(calib) >= 2:
            ref_x = max(calib, key=lambda t: abs(t[1]))
            ref_y = max(calib, key=lambda t: abs(t[2]))
            if abs(ref_x[4] - cc) >= 8:
                cpd = (ref_x[4] - cc) / ref_x[1]
                for (k, dlon, dmy, r, c) in calib:
                    if abs((cc + cpd * dlon) - c) > 1.6:
                        fails.append(("C18/map/proportional_x", f"aircraft {k}: column {c}, predicted {cc + cpd * dlon:.1f} from the reference aircraft {ref_x[0]} ({cpd:.2f} columns per degree)"))
            if abs(ref_y[3] - cr) >= 6:
                rpm = (cr - ref_y[3]) / ref_y[2]
                for (k, dlon, dmy, r, c) in calib:
                    if abs((cr - rpm * dmy) - r) > 1.6:
                        fails.append(("C18/map/proportional_y", f"aircraft {k}: row {r}, predicted {cr - rpm * dmy:.1f} from the reference aircraft {ref_y[0]}"))
        # labels can overwrite each other and the axes: only checked for a single, off-axis aircraft
        if labels and len(placed) == 1 and abs(placed[0][3]) * col_per_deg > 6 and abs(placed[0][4]) * row_per_my > 4:
            scr = s.fresh_screen()
            text = scr.text()
            for (i, k, p, dlon, dmy, cells) in placed:
                if abs(dlon * upd) < 300 and abs(dmy * scale * 500000 / (2 * math.pi)) < 300:
                    name = recs[k]["callsign"] or k
                    lab = f"{name} ({p[0]:.3f}, {p[1]:.3f})"
                    if lab[:12] not in text:
                        fails.append(("C18/map/label", f"label {lab!r} of aircraft {k} not on the map"))

        # ---- view controls change only the view
        base_blue = sorted(mi["blue"])
        seq = case.get("view", [])
        zoom = 0
        for v in seq:
            if v[0] == "zoom":
                for _ in range(abs(v[1])):
                    s.press("+" if v[1] > 0 else "-")
                zoom += v[1]
            elif v[0] == "scroll":
                for _ in range(abs(v[1])):
                    s.p.write(mouse_sgr("scrollup" if v[1] > 0 else "scrolldown", 80, 25))
                zoom += v[1]
            elif v[0] == "pan":
                for _ in range(v[2]):
                    s.press(["Left", "Right", "Up", "Down"][v[1] % 4])
            elif v[0] == "drag":
                s.p.write(mouse_sgr("down", 80, 25) + mouse_sgr("drag", 80, 25) + mouse_sgr("drag", 80 + v[1], 25 + v[2]) + mouse_sgr("up", 80 + v[1], 25 + v[2]))
            time.sleep(0.12)
        if seq:
            time.sleep(0.15)
            mi2 = stable_map(s)
            moved = sorted(mi2["blue"])
            only_zoom = all(v[0] in ("zoom", "scroll") for v in seq)
            if only_zoom and zoom != 0 and len(calib) >= 1:
                k = 1.1 ** zoom
                for (kk, dlon, dmy, r, c) in calib:
                    pr, pc = cr - (cr - r) * k, cc + (c - cc) * k
                    if top + 2 < pr < bottom - 2 and left + 2 < pc < right - 2:
                        if not any(abs(b[0] - pr) <= 2.1 and abs(b[1] - pc) <= 2.1 for b in mi2["blue"]):
                            fails.append(("C18/view/zoom", f"after zoom x1.1^{zoom} the marker of {kk} should be near ({pr:.1f},{pc:.1f}); markers at {mi2['blue'][:6]}"))
            only_pan_h = all(v[0] == "pan" and v[1] % 4 in (0, 1) for v in seq)
            if only_pan_h and len(moved) == len(base_blue) and base_blue:
                shifts = {(m[0] - b[0], m[1] - b[1]) for m, b in zip(moved, base_blue)}
                dcs = [x[1] for x in shifts]
                if any(x[0] != 0 for x in shifts) or (max(dcs) - min(dcs) > 1):
                    fails.append(("C18/view/pan", f"a horizontal pan moved the markers by different vectors {sorted(shifts)}"))
            # data unchanged
            rows_after = check_table("after_view")
            # ... and data that arrives while the view is moved is still the tracker's data
            if case.get("post_view"):
                more = []
                for (i, fs, pos) in feed:
                    ac = case["aircraft"][i]
                    if ac.get("position", True):
                        lat2, lon2 = F.destination(pos[0], pos[1], 90.0, 1.5)
                        alt = 1000 + 25 * ac.get("alt", 100)
                        more += [F.position(ADDRS[i % len(ADDRS)], lat2, lon2, 0, alt_ft=alt), F.position(ADDRS[i % len(ADDRS)], lat2, lon2, 1, alt_ft=alt)]
                if more:
                    for f in more:
                        s.send(F.line(f))
                    all_frames += [f.hex() for f in more]
                    if not s.wait_log_contains(more[-1].hex(), 8.0):
                        raise Inconclusive("frames not processed within 8 s")
                    exp2 = F.helper({"cmd": "trackdump", "frames": all_frames, "rx": list(rx), "range": 500.0})
                    recs.clear()
                    recs.update(exp2["dump"]["records"])
                    exp["total_added"], exp["most"] = exp2["total_added"], exp2["most"]
                    time.sleep(0.15)
                    rows_before = check_table("after_view_new_data")
                    rows_after = rows_before
            if rows_before is not None and rows_after is not None and [[c.strip() for c in r] for r in rows_after] != [[c.strip() for c in r] for r in rows_before]:
                fails.append(("C18/view/table_changed", "the Airplanes tab differs after view controls"))
            stats_after = check_stats("after_view")
            if stats_after != stats_before:
                fails.append(("C18/view/stats_changed", f"the Stats tab differs after view controls: {stats_before} -> {stats_after}"))
            # reset restores the map cell for cell
            s.press("F1")
            time.sleep(0.2)
            s.press("Enter")
            ok = s.wait_for(lambda: sorted(map_info(s.fresh_screen())["blue"]) == base_blue, 3.0)
            if not ok and not labels and not case.get("post_view"):
                fails.append(("C18/view/reset", f"Enter does not restore the original map: markers {sorted(map_info(s.fresh_screen())['blue'])[:8]} vs {base_blue[:8]}"))
        # ---- centring the view on an aircraft (Enter on its row of the Airplanes tab) puts its
        # marker in the middle of the canvas, at every zoom level; the data stay as they are
        goto = case.get("goto")
        if goto is not None and not labels and keys and s.alive():
            row = goto["row"] % len(keys)
            k = keys[row]
            if recs[k].get("details"):
                s.press("F1")
                time.sleep(0.15)
                s.press("Enter")  # (reset: start from the receiver-centred view)
                s.press("F3")
                if not s.wait_for(lambda: table_rows(s.fresh_screen()) is not None, 4.0):
                    raise Inconclusive("Airplanes tab did not appear")
                for _ in range(row + 1):
                    s.press("Down")
                    time.sleep(0.05)
                s.press("Enter")
                time.sleep(0.2)
                s.press("F1")
                s.wait_for(lambda: map_info(s.fresh_screen())["box"][0] is not None, 4.0)
                for step in range(goto["zoom"] + 1):
                    if step > 0:
                        s.press("+")
                        time.sleep(0.1)
                    if step not in (0, goto["zoom"]):
                        continue
                    found = False
                    mi3 = None
                    for attempt in range(10):
                        mi3 = stable_map(s)
                        t3, b3, l3, r3 = mi3["box"]
                        if t3 is None:
                            continue
                        mid = ((t3 + b3) / 2.0, (l3 + r3) / 2.0)
                        if any(abs(bc[0] - mid[0]) <= 2.1 and abs(bc[1] - mid[1]) <= 2.1 for bc in mi3["blue"]):
                            found = True
                            break
                        s.p.pump(0.3)
                    if mi3 is None or mi3["box"][0] is None:
                        raise Inconclusive("map not visible")
                    if not found:
                        fails.append(("C18/view/centred_aircraft", f"the view was centred on aircraft {k} (Enter on row {row + 1} of the Airplanes tab) and zoomed in {step} step(s): no marker within 2 cells of the canvas centre {mid}; markers at {sorted(mi3['blue'])[:8]}"))
                        break
                rows_goto = check_table("after_centring")
                if rows_before is not None and rows_goto is not None and [[c.strip() for c in r] for r in rows_goto] != [[c.strip() for c in r] for r in rows_before]:
                    fails.append(("C18/view/table_changed", "the Airplanes tab differs after centring the view on an aircraft"))
        if not s.alive():
            fails.append(("C18/terminated", f"radar terminated: {s.stderr()[-300:]}"))
    finally:
        s.close()
        if gpsd:
            gpsd.close()
    return fails


def classify(case):
    if case.get("long_lived"):
        return ["long-lived aircraft"], True
    if case.get("expiry_case"):
        return ["expiry scenario (stats across time-outs)"], True
    quad = set()
    for ac in case["aircraft"]:
        if ac.get("position", True) and ac["km"] > 5:
            quad.add(int(ac["bearing"] // 90) % 4)
    cls = [f"rx:{case['rx'] % len(RXS)}", f"quadrants:{len(quad)}"]
    if case.get("view"):
        cls.append("view control")
    if case.get("labels"):
        cls.append("labels on")
    if any(not ac.get("position", True) for ac in case["aircraft"]):
        cls.append("aircraft without position")
    if case.get("gpsd"):
        cls.append("receiver position from gpsd")
    if any(ac.get("df18") for ac in case["aircraft"]):
        cls.append("aircraft heard via DF18")
    if case.get("goto"):
        cls.append("view centred on an aircraft")
    if any(ac.get("first_other") for ac in case["aircraft"]):
        cls.append("aircraft first heard with a status / target-state squitter")
    return cls, (len(quad) >= 2 and bool(case.get("view")))


def worker(args):
    from hypothesis import given, settings, seed, HealthCheck, strategies as st, Phase
    rec = pbt.Recorder(PID)
    ac = st.fixed_dictionaries({
        "bearing": st.one_of(st.sampled_from([0.0, 45.0, 90.0, 135.0, 180.0, 225.0, 270.0, 315.0]), st.floats(0, 359.9)),
        "km": st.one_of(st.sampled_from([0.0, 20.0, 60.0, 100.0, 140.0]), st.floats(1, 150)),
        "callsign": st.one_of(st.none(), st.sampled_from(["KLM1023", "BAW9", "N123AB", "DLH4TK", "TOOLONG8"])),
        "position": st.sampled_from([True, True, True, True, False]),
        "alt": st.integers(0, 1500),
        "climb": st.sampled_from([0, 0, 1, -1, 40, -40, 400]),
        "velocity": st.one_of(st.none(), st.tuples(st.integers(-400, 400), st.integers(-400, 400))),
        "extra": st.integers(0, 3),
        "df18": st.sampled_from([False, False, False, True]),
        "first_other": st.sampled_from([0, 0, 0, 1, 2, 3]),
    })
    view = st.one_of(
        st.tuples(st.just("zoom"), st.sampled_from([-6, -3, -1, 1, 2, 4])),
        st.tuples(st.just("scroll"), st.sampled_from([-3, -1, 1, 3])),
        st.tuples(st.just("pan"), st.integers(0, 3), st.integers(1, 25)),
        st.tuples(st.just("drag"), st.integers(-20, 20), st.integers(-8, 8)),
    )
    case_s = st.fixed_dictionaries({
        "rx": st.integers(0, len(RXS) - 1),
        "aircraft": st.lists(ac, min_size=1, max_size=8),
        "labels": st.booleans(),
        "scale": st.sampled_from([None, None, 0.12, 0.2, 0.06]),
        "view": st.lists(view, max_size=3),
        "post_view": st.booleans(),
        "goto": st.one_of(st.none(), st.fixed_dictionaries({"row": st.integers(0, 7), "zoom": st.sampled_from([0, 3, 8, 12])})),
        "gpsd": st.one_of(st.none(), st.none(), st.none(), st.fixed_dictionaries({"bearing": st.sampled_from([0.0, 90.0, 200.0, 315.0]), "km": st.sampled_from([15.0, 40.0, 90.0])})),
    })

    expiry_s = st.fixed_dictionaries({"expiry_case": st.just(True), "rx": st.integers(0, len(RXS) - 1), "n1": st.integers(0, 3), "keep": st.lists(st.integers(0, 4), min_size=1, max_size=3), "n2": st.integers(0, 3), "back": st.lists(st.integers(0, 4), max_size=3)})
    # (one_of over strategies of very different size favours the small one: pick the kind explicitly)
    reg_s = case_s
    case_s = st.sampled_from([0, 1, 2, 3, 4, 5, 6, 7]).flatmap(lambda k: expiry_s if k == 0 else reg_s)

    @seed(args.seed * 1000 + 18 * 7 + args.worker)
    @settings(max_examples=args.n, deadline=None, database=None, suppress_health_check=list(HealthCheck), phases=[Phase.generate, Phase.shrink], report_multiple_bugs=False)
    @given(case_s)
    def prop(case):
        try:
            fails = run_case(case)
        except Inconclusive:
            rec.inconclusive += 1
            return
        cls, nontrivial = classify(case)
        rec.judge(case, fails, nontrivial, cls)

    err = None
    try:
        prop()
    except AssertionError:
        pass
    except Exception:
        import traceback
        if rec.failure is None:
            err = traceback.format_exc()[-1500:]
    rec.dump(args.out, err)


def replay(path):
    case = json.load(open(path))
    for attempt in range(3):
        try:
            fails = run_case(case)
        except Inconclusive as e:
            print("inconclusive attempt:", e)
            continue
        if fails:
            for sig, msg in fails:
                print(f"  signature={sig} :: {msg}")
            print(f"VIOLATION property={PID} replay={path}")
            return 1
    print(f"replay {path}: property {PID} held in 3 attempts")
    return 0


def main():
    ap = argparse.ArgumentParser()
    ap.add_argument("tier", nargs="?", default="quick")
    ap.add_argument("--worker", type=int)
    ap.add_argument("--n", type=int, default=10)
    ap.add_argument("--seed", type=int, default=int(os.environ.get("VERIF_SEED", "1")))
    ap.add_argument("--tier", dest="tier2")
    ap.add_argument("--out")
    ap.add_argument("--replay")
    a = ap.parse_args()
    if a.replay:
        sys.exit(replay(a.replay))
    if a.worker is not None:
        worker(a)
        return
    tier = a.tier
    per = 9 if tier == "quick" else 250
    rc = pbt.run_parallel(
        PID, os.path.abspath(__file__), tier, 12, per, "exploration",
        "Hypothesis-generated scenarios: 1-8 aircraft placed by bearing/distance around one of five receiver sites (all quadrants, the axes, the receiver position itself), with or without callsign / position / velocity / extra frames, as DF17 or DF18, optionally with the receiver position delivered by a gpsd server after start, frames built by a reference CPR encoder and fed over TCP to the radar binary on a 50x160 pty; the terminal output is parsed by a VT emulator. Oracle: Airplanes tab rows == tracker records computed by the real library from the same frames (address, callsign, lat/lon/distance to 3 decimals, altitude, message count; blank until a position exists; titles count the tracked aircraft); Stats totals == number of newly-added events / largest simultaneous count; Map: axes cross at the canvas centre, each marker on the correct side of the centre, offsets proportional (scale calibrated from the farthest marker, +-1.6 cells); view controls (zoom keys, scroll, pan keys, drag) leave both tables unchanged, zoom scales offsets by 1.1^n, a horizontal pan moves all markers by one vector, Enter restores the map cell for cell. non-trivial = aircraft in >= 2 quadrants and >= 1 view control; distinct by hash of the case",
        ["markers are identified as cells with the blue foreground colour with --disable-heading --disable-track (and --disable-icao in half of the cases so that labels cannot overwrite markers)", "expected table contents come from rsadsb_common run on the same frames (vcheck helper trackdump): the client is checked as a faithful front end"],
        a.seed,
        regress_one=run_case,
        # thorough only: an aircraft tracked for more than 10 000 frames next to a fresh one (the
        # Msgs column then needs five digits); radar takes one frame per pass of its main loop, so
        # this session runs for minutes
        extra_cases=([{"long_lived": 10_050, "rx": 0}] if tier == "thorough" else [])
        # the view centred on each of three aircraft (20, 100 and 145 km out) and zoomed in 8 and 12 steps
        + [{"rx": rxi, "aircraft": [{"bearing": 270.0, "km": 145.0, "callsign": "FAR2", "position": True, "alt": 300, "climb": 0, "velocity": None, "extra": 0, "df18": False, "first_other": 0},
                                    {"bearing": 40.0, "km": 20.0, "callsign": "NEAR1", "position": True, "alt": 200, "climb": 0, "velocity": None, "extra": 0, "df18": False, "first_other": 0},
                                    {"bearing": 135.0, "km": 100.0, "callsign": None, "position": True, "alt": 100, "climb": 0, "velocity": None, "extra": 0, "df18": False, "first_other": 0}],
            "labels": False, "scale": None, "view": [], "post_view": False, "gpsd": None, "goto": {"row": row, "zoom": z}} for (rxi, row, z) in ((3, 0, 8), (3, 1, 12), (0, 2, 8), (6, 0, 12))]
        # ... with an aircraft that has no position sorting first in the table (rows and positions are different lists)
        + [{"rx": 3, "aircraft": [{"bearing": 270.0, "km": 145.0, "callsign": "FAR2", "position": True, "alt": 300, "climb": 0, "velocity": None, "extra": 0, "df18": False, "first_other": 0},
                                  {"bearing": 40.0, "km": 20.0, "callsign": "NEAR1", "position": True, "alt": 200, "climb": 0, "velocity": None, "extra": 0, "df18": False, "first_other": 0},
                                  {"bearing": 135.0, "km": 100.0, "callsign": None, "position": True, "alt": 100, "climb": 0, "velocity": None, "extra": 0, "df18": False, "first_other": 0},
                                  {"bearing": 0.0, "km": 50.0, "callsign": "NOPOS", "position": False, "alt": 100, "climb": 0, "velocity": None, "extra": 1, "df18": False, "first_other": 0}],
            "labels": False, "scale": None, "view": [], "post_view": False, "gpsd": None, "goto": {"row": row, "zoom": 3}} for row in (1, 2, 3)]
        # four aircraft 12 km out, one per quadrant, around receivers beyond 85 degrees of latitude
        + [{"rx": rxi, "aircraft": [{"bearing": b, "km": 12.0, "callsign": None, "position": True, "alt": 100 + i, "climb": 0, "velocity": None, "extra": 0, "df18": False, "first_other": 0} for i, b in enumerate((20.0, 110.0, 200.0, 290.0))],
            "labels": False, "scale": None, "view": [], "post_view": False, "gpsd": None, "goto": None} for rxi in (9, 10)],
    )
    sys.exit(rc)


if __name__ == "__main__":
    main()
