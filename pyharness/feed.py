"""TCP feed server with scripted segmentation / delays / drops."""
import socket, threading, time


class FeedServer:
    def __init__(self):
        self.sock = socket.socket(socket.AF_INET, socket.SOCK_STREAM)
        self.sock.setsockopt(socket.SOL_SOCKET, socket.SO_REUSEADDR, 1)
        self.sock.bind(("127.0.0.1", 0))
        self.sock.listen(4)
        self.port = self.sock.getsockname()[1]
        self.conn = None

    def accept(self, timeout=10.0):
        self.sock.settimeout(timeout)
        try:
            self.conn, _ = self.sock.accept()
        except socket.timeout:
            return False
        self.conn.setsockopt(socket.IPPROTO_TCP, socket.TCP_NODELAY, 1)
        return True

    def send(self, data: bytes):
        self.conn.sendall(data)

    def send_segments(self, segments):
        """segments: list of (bytes, delay_after_seconds)"""
        for data, delay in segments:
            if data:
                self.conn.sendall(data)
            if delay:
                time.sleep(delay)

    def drop(self, reset=False):
        """close the connection: orderly (FIN) or abortively (RST, as a crashed server would)"""
        if self.conn:
            if reset:
                import struct
                self.conn.setsockopt(socket.SOL_SOCKET, socket.SO_LINGER, struct.pack("ii", 1, 0))
            else:
                try:
                    self.conn.shutdown(socket.SHUT_RDWR)
                except OSError:
                    pass
            self.conn.close()
            self.conn = None

    def close(self):
        self.drop()
        self.sock.close()


def line_of(frame_hex: str) -> bytes:
    return b"*" + frame_hex.encode() + b";\n"
