"""TCP feed server with scripted segmentation / delays / drops."""
import socket, threading, time


class FeedServer:
    def __init__(self):
        self.sock = socket.socket(socket.AF_INET, socket.SOCK_STREAM)
        self.sock.setsockopt(socket.SOL_SOCKET, socket.SO_REUSEADDR, 1)
        self.sock.bind(("127.0.0.1", 0))
        self.sock.listen(4)
        self.port = self.sock.getsockname()[1]
        self.conn = None
        self._lock = threading.Lock()

    def accept(self, timeout=10.0):
        self.sock.settimeout(timeout)
        try:
            self.conn, _ = self.sock.accept()
        except socket.timeout:
            return False
        self.conn.setsockopt(socket.IPPROTO_TCP, socket.TCP_NODELAY, 1)
        return True

    def send(self, data: bytes):
        with self._lock:
            self.conn.sendall(data)

    def flood(self, lines, every=0.004):
        """keep sending `lines` (round robin, one every `every` seconds) from a background thread
        until stop_flood() / close(): a feed that never pauses for longer than the clients' 50 ms
        read timeout"""
        self._flood_stop = threading.Event()

        def run():
            i = 0
            while not self._flood_stop.is_set():
                try:
                    c = self.conn
                    if c is None:
                        time.sleep(0.05)
                        continue
                    with self._lock:
                        c.settimeout(1.0)
                        c.sendall(lines[i % len(lines)])
                except (OSError, socket.timeout):
                    time.sleep(0.05)
                i += 1
                time.sleep(every)

        self._flood_thread = threading.Thread(target=run, daemon=True)
        self._flood_thread.start()

    def stop_flood(self):
        ev = getattr(self, "_flood_stop", None)
        if ev is not None:
            ev.set()
            self._flood_thread.join(2.0)

    def send_segments(self, segments):
        """segments: list of (bytes, delay_after_seconds)"""
        for data, delay in segments:
            if data:
                self.conn.sendall(data)
            if delay:
                time.sleep(delay)

    def drop(self, reset=False):
        """close the connection: orderly (FIN) or abortively (RST, as a crashed server would)"""
        if self.conn:
            if reset:
                import struct
                self.conn.setsockopt(socket.SOL_SOCKET, socket.SO_LINGER, struct.pack("ii", 1, 0))
            else:
                try:
                    self.conn.shutdown(socket.SHUT_RDWR)
                except OSError:
                    pass
            self.conn.close()
            self.conn = None

    def go_away(self):
        """stop listening altogether: connection attempts are refused until come_back()"""
        self.drop()
        self.sock.close()

    def come_back(self):
        """listen on the same port again; False if the port could not be taken back"""
        self.sock = socket.socket(socket.AF_INET, socket.SOCK_STREAM)
        self.sock.setsockopt(socket.SOL_SOCKET, socket.SO_REUSEADDR, 1)
        try:
            self.sock.bind(("127.0.0.1", self.port))
        except OSError:
            return False
        self.sock.listen(4)
        return True

    def stall(self):
        """make the port unresponsive without refusing: the accept queue is filled with dummy
        connections, so further SYNs are silently dropped and a connect attempt times out"""
        self._dummies = []
        for _ in range(24):
            d = socket.socket(socket.AF_INET, socket.SOCK_STREAM)
            d.setblocking(False)
            try:
                d.connect_ex(("127.0.0.1", self.port))
            except OSError:
                pass
            self._dummies.append(d)
        time.sleep(0.2)

    def unstall(self):
        """drop the dummy connections again (pending ones are taken off the queue and closed)"""
        mine = set()
        for d in getattr(self, "_dummies", []):
            try:
                mine.add(d.getsockname()[1])
            except OSError:
                pass
        self._dummy_ports = mine
        for d in getattr(self, "_dummies", []):
            try:
                d.close()
            except OSError:
                pass
        self._dummies = []

    def accept_real(self, timeout=30.0):
        """accept, skipping what is left of the dummy connections"""
        end = time.time() + timeout
        while time.time() < end:
            self.sock.settimeout(max(0.1, end - time.time()))
            try:
                c, peer = self.sock.accept()
            except socket.timeout:
                return False
            if peer[1] in getattr(self, "_dummy_ports", set()):
                c.close()
                continue
            self.conn = c
            self.conn.setsockopt(socket.IPPROTO_TCP, socket.TCP_NODELAY, 1)
            return True
        return False

    def close(self):
        self.stop_flood()
        self.drop()
        self.unstall()
        self.sock.close()


def line_of(frame_hex: str) -> bytes:
    return b"*" + frame_hex.encode() + b";\n"


class FakeGpsd(threading.Thread):
    """A gpsd daemon for one client on its own loopback address (radar always uses port 2947):
    VERSION / ?WATCH / DEVICES / WATCH handshake, then the TPV reports given to report()."""
    _n = 0

    def __init__(self, proto_major=3):
        super().__init__(daemon=True)
        import os
        self.proto_major = proto_major  # a version the client's handshake refuses: anything but 3
        FakeGpsd._n += 1
        self.srv = socket.socket()
        self.srv.setsockopt(socket.SOL_SOCKET, socket.SO_REUSEADDR, 1)
        self.ip = None
        for k in range(200):
            ip = f"127.18.{(os.getpid() + k) % 250 + 1}.{(FakeGpsd._n + threading.get_ident() + k) % 250 + 1}"
            try:
                self.srv.bind((ip, 2947))
                self.ip = ip
                break
            except OSError:
                continue
        if self.ip is None:
            raise OSError("no free loopback address for the gpsd server")
        self.srv.listen(1)
        self.srv.settimeout(12.0)
        self.conn = None
        self.ready = threading.Event()

    def run(self):
        try:
            self.conn, _ = self.srv.accept()
            self._send({"class": "VERSION", "release": "3.22", "rev": "3.22", "proto_major": self.proto_major, "proto_minor": 14})
            if self.proto_major != 3:
                self.ready.set()
                return
            buf = b""
            self.conn.settimeout(8.0)
            while b";" not in buf:  # ?WATCH={"enable":true,"json":true};
                d = self.conn.recv(256)
                if not d:
                    return
                buf += d
            self._send({"class": "DEVICES", "devices": [{"path": "/dev/ttyACM0", "activated": "2026-10-03T10:00:00.000Z"}]})
            self._send({"class": "WATCH", "enable": True, "json": True, "nmea": False})
            self.ready.set()
        except OSError:
            pass

    def _send(self, obj):
        import json
        self.conn.sendall(json.dumps(obj).encode() + b"\r\n")

    def report(self, lat, lon):
        self._send({"class": "TPV", "device": "/dev/ttyACM0", "mode": 3, "time": "2026-10-03T10:00:01.000Z", "lat": lat, "lon": lon, "altMSL": 3.0, "speed": 20.0, "track": 60.0})

    def chatter(self):
        """the other reports a gpsd with a good receiver interleaves with its fixes: pseudorange
        noise statistics (GST: `lat`/`lon` are standard deviations in metres, not coordinates),
        a sky view, and a TPV report without a fix"""
        self._send({"class": "GST", "device": "/dev/ttyACM0", "time": "2026-10-03T10:00:02.000Z", "rms": 2.2, "major": 4.7, "minor": 3.0, "orient": 68.0, "lat": 3.1, "lon": 4.6, "alt": 7.9})
        self._send({"class": "SKY", "device": "/dev/ttyACM0", "time": "2026-10-03T10:00:02.000Z", "hdop": 1.1, "pdop": 1.9, "satellites": [{"PRN": 5, "el": 41.0, "az": 110.0, "ss": 33.0, "used": True}]})
        self._send({"class": "TPV", "device": "/dev/ttyACM0", "mode": 1, "time": "2026-10-03T10:00:02.500Z"})

    def close(self):
        for x in (self.conn, self.srv):
            try:
                if x is not None:
                    x.close()
            except OSError:
                pass
